"""In-process runners for the three front ends (codebasin, cbi-tree, cbi-cov) with fd-level capture.

report.* binds sys.stdout as a default argument at import time, so Python-level redirection is
not enough: file descriptors 1 and 2 are redirected to temporary files for the duration of a run.
Handlers the front ends add to the 'codebasin' logger are removed afterwards, the process-wide
compiler cache is reset, and the working directory restored.
"""
import contextlib
import json
import logging
import os
import re
import subprocess
import sys
import tempfile

from . import env


@contextlib.contextmanager
def capture_fds():
    sys.stdout.flush()
    sys.stderr.flush()
    s1, s2 = os.dup(1), os.dup(2)
    f1 = tempfile.TemporaryFile(mode="w+b")
    f2 = tempfile.TemporaryFile(mode="w+b")
    os.dup2(f1.fileno(), 1)
    os.dup2(f2.fileno(), 2)
    box = {}
    try:
        yield box
    finally:
        try:
            sys.stdout.flush()
            sys.stderr.flush()
        except Exception:  # noqa
            pass
        os.dup2(s1, 1)
        os.dup2(s2, 2)
        os.close(s1)
        os.close(s2)
        f1.seek(0)
        f2.seek(0)
        box["out"] = f1.read().decode("utf-8", "replace")
        box["err"] = f2.read().decode("utf-8", "replace")
        f1.close()
        f2.close()


def _cleanup_logging():
    lg = logging.getLogger("codebasin")
    for h in list(lg.handlers):
        if h is env.capture:
            continue
        lg.removeHandler(h)
        try:
            h.close()
        except Exception:  # noqa
            pass
    logging.disable(logging.NOTSET)


def run(tool, argv, cwd):
    """tool in {'codebasin','tree','cov'}.  Returns dict(rc, out, err, log, records)."""
    from codebasin import config

    old_cwd = os.getcwd()
    old_argv = sys.argv
    os.chdir(cwd)
    env.reset_compilers()
    env.capture.records.clear()
    rc = None
    with capture_fds() as box:
        try:
            if tool == "codebasin":
                import codebasin.__main__ as m

                sys.argv = ["codebasin"] + list(argv)
                m.main()
            elif tool == "tree":
                import codebasin.tree as m

                sys.argv = ["cbi-tree"] + list(argv)
                m.main()
            elif tool == "cov":
                import codebasin.coverage.__main__ as m

                sys.argv = ["cbi-cov"] + list(argv)
                m.main()
            else:
                raise ValueError(tool)
            rc = 0
        except SystemExit as e:
            rc = e.code if isinstance(e.code, int) else (0 if e.code is None else 1)
        except BaseException as e:  # noqa
            rc = f"EXC {type(e).__name__}: {e}"
        finally:
            sys.argv = old_argv
            _cleanup_logging()
    records = [(r.levelname, r.name, r.getMessage()) for r in env.capture.records]
    log = None
    lp = os.path.join(cwd, "cbi.log")
    if os.path.exists(lp):
        with open(lp, errors="replace") as f:
            log = f.read()
    os.chdir(old_cwd)
    return {"rc": rc, "out": box["out"], "err": box["err"], "log": log, "records": records}


def run_subprocess(tool, argv, cwd, hashseed=None):
    mod = {"codebasin": "codebasin", "tree": "codebasin.tree", "cov": "codebasin.coverage"}[tool]
    e = dict(os.environ)
    e["PYTHONPATH"] = env.REPO + os.pathsep + e.get("PYTHONPATH", "")
    if hashseed is not None:
        e["PYTHONHASHSEED"] = str(hashseed)
    p = subprocess.run([sys.executable, "-W", "ignore", "-m", mod] + list(argv), cwd=cwd, capture_output=True, text=True, env=e)
    return {"rc": p.returncode, "out": p.stdout, "err": p.stderr}


# ------------------------------------------------------------------ parsers
def parse_summary(out):
    """{'rows': [(frozenset, loc, pct_str)], 'metrics': {...}, 'order': [labels]}"""
    rows = []
    metrics = {}
    for ln in out.splitlines():
        if ln.startswith("│") and "Platform Set" not in ln:
            cells = [c.strip() for c in ln.strip("│").split("│")]
            if len(cells) == 3 and cells[0].startswith("{"):
                names = [x.strip() for x in cells[0].strip("{}").split(",") if x.strip()]
                rows.append((frozenset(names), int(cells[1]), cells[2], cells[0]))
        for key in ("Code Divergence", "Coverage (%)", "Avg. Coverage (%)", "Total SLOC"):
            if ln.startswith(key + ":"):
                metrics[key] = ln.split(":", 1)[1].strip()
    return {"rows": rows, "metrics": metrics}


_TREE = re.compile(r"^\[([^|\]]*)\|([^|]*)\|([^|]*)\|([^\]]*)\] ((?:[|\\ ]|  )*)(-?[-o]) (.*)$")


def parse_tree(out):
    """list of dict(depth, name, platforms, sloc, cov, avg, is_dir, link_target) in printed order + legend"""
    legend = {}
    nodes = []
    for ln in out.splitlines():
        m = re.match(r"^([A-Z]): (.*)$", ln)
        if m and not nodes:
            legend[m.group(1)] = m.group(2)
            continue
        if not ln.startswith("["):
            continue
        m = _TREE.match(ln)
        if not m:
            nodes.append({"raw": ln})
            continue
        plat, sloc, cov, avg, prefix, stub, name = m.groups()
        depth = 0 if stub in ("o", "-") and not prefix and not stub.startswith("-") else (len(prefix) // 2 + 1)
        if stub == "o" and not prefix:
            depth = 0
        link = None
        if " -> " in name:
            name, link = name.split(" -> ", 1)
        nodes.append({"depth": depth, "name": name.rstrip("/"), "is_dir": stub.endswith("o"), "platforms": plat.strip(), "sloc": sloc.strip(),
                      "cov": cov.strip(), "avg": avg.strip(), "link": link})
    return legend, nodes


def tree_paths(nodes):
    """attach a path (tuple of names below the root) to every node using depths"""
    stack = []
    out = []
    for n in nodes:
        if "raw" in n:
            out.append(n)
            continue
        d = n["depth"]
        stack = stack[:d]
        stack.append(n["name"])
        m = dict(n)
        m["path"] = tuple(stack[1:])
        out.append(m)
    return out
