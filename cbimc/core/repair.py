"""Attribution of failures to *known findings* by micro-repair.

A known finding of type "repair" names a tiny textual edit of one module of the tree under
test that removes exactly that defect.  The edited source is compiled into a private module
object (never written to disk, /repo untouched).  A failing case is attributed to the finding
iff it passes when the implementation is taken from the repaired module.  The edit is applied
to the *current* source, so any other change in that file (a mutation, a regression) is still
present in the repaired copy and is still reported.  If the edit no longer applies exactly
once, nothing is attributed.
"""
import importlib.util
import types

_cache = {}


def load_repaired(modname, edits):
    key = (modname, repr(edits))
    if key in _cache:
        return _cache[key]
    spec = importlib.util.find_spec(modname)
    with open(spec.origin) as f:
        src = f.read()
    mod = None
    ok = True
    for e in edits:
        if src.count(e["old"]) != 1:
            ok = False
            break
        src = src.replace(e["old"], e["new"])
    if ok:
        mod = types.ModuleType(modname + "__repaired")
        mod.__file__ = spec.origin
        mod.__package__ = modname.rpartition(".")[0]
        exec(compile(src, spec.origin + "<repaired>", "exec"), mod.__dict__)
    _cache[key] = mod
    return mod
