"""Deterministic greedy shrinking to a locally minimal witness.

minimize(w, candidates, fails): repeatedly replace w by the first candidate (in the order the
candidate generator yields them: it must yield *simpler* witnesses, simplest first) for which
fails(candidate) is truthy, until none does.  fails must return False for ill-formed
candidates, so well-formedness is preserved.  Deterministic: same input, same output.
"""


def minimize(w, candidates, fails, budget=4000):
    steps = 0
    progress = True
    while progress and steps < budget:
        progress = False
        for c in candidates(w):
            steps += 1
            if steps >= budget:
                break
            if fails(c):
                w = c
                progress = True
                break
    return w


def seq_deletions(seq):
    """All sequences obtained by deleting one element, then two adjacent, two arbitrary."""
    n = len(seq)
    for i in range(n):
        yield seq[:i] + seq[i + 1:]
    for i in range(n - 1):
        yield seq[:i] + seq[i + 2:]
    if n <= 12:
        for i in range(n):
            for j in range(i + 2, n):
                yield seq[:i] + seq[i + 1:j] + seq[j + 1:]


def seq_replacements(seq, simpler):
    """Replace one element by a simpler one; simpler(x) yields strictly simpler values."""
    for i, x in enumerate(seq):
        for y in simpler(x):
            yield seq[:i] + type(seq)([y]) + seq[i + 1:] if not isinstance(seq, str) else seq[:i] + y + seq[i + 1:]


def str_moves(t, filler="a"):
    """Strong moves for short strings: delete any contiguous substring (shortest result first),
    then replace any contiguous substring by the filler."""
    n = len(t)
    seen = set()
    for ln in range(n, 0, -1):          # delete longest substrings first -> smallest results first
        for i in range(0, n - ln + 1):
            c = t[:i] + t[i + ln:]
            if c not in seen and c != t:
                seen.add(c)
                yield c
    for ln in range(n, 0, -1):
        for i in range(0, n - ln + 1):
            if t[i:i + ln] == filler:
                continue
            c = t[:i] + filler + t[i + ln:]
            if c not in seen and c != t:
                seen.add(c)
                yield c


def minimize_batch(w, candidates, first_failing, budget=60, width=64):
    """Like minimize, but candidates are judged in batches: first_failing(list) returns the index of the
    first failing candidate of the list (or None).  Lets an external oracle judge many candidates at once."""
    rounds = 0
    progress = True
    while progress and rounds < budget:
        progress = False
        batch = []
        for c in candidates(w):
            batch.append(c)
            if len(batch) >= width:
                break
        if not batch:
            break
        rounds += 1
        i = first_failing(batch)
        if i is not None:
            w = batch[i]
            progress = True
    return w
