"""Building small code bases + analysis files on tmpfs, and the in-process ground attribution."""
import json
import os


def write_tree(root, files, links=None):
    for rel, text in files.items():
        p = os.path.join(root, rel)
        os.makedirs(os.path.dirname(p), exist_ok=True)
        with open(p, "w") as f:
            f.write(text)
    for rel, tgt in (links or {}).items():
        p = os.path.join(root, rel)
        os.makedirs(os.path.dirname(p), exist_ok=True)
        if os.path.lexists(p):
            os.unlink(p)
        os.symlink(tgt, p)


def write_analysis(root, platforms, exclude=None, name="analysis.toml", compiler="/usr/bin/gcc", order=None):
    """platforms: {pname: [ {file: rel, args: [...], directory: optional} ]}.  Writes one compilation
    database per platform and the analysis file; returns the analysis file name."""
    lines = []
    if exclude is not None:
        lines += ["[codebase]", "exclude = [" + ", ".join(json.dumps(x) for x in exclude) + "]", ""]
    for pname in (order or list(platforms)):
        db = []
        for e in platforms[pname]:
            ent = {"file": e["file"], "arguments": [e.get("compiler", compiler)] + list(e.get("args", [])) + ["-c", e["file"]], "directory": e.get("directory", root)}
            db.append(ent)
        with open(os.path.join(root, f"{pname}.json"), "w") as f:
            json.dump(db, f)
        lines += [f"[platform.{json.dumps(pname)}]" if not pname.isidentifier() else f"[platform.{pname}]", f'commands = "{pname}.json"', ""]
    with open(os.path.join(root, name), "w") as f:
        f.write("\n".join(lines))
    return name


def configuration(root, platforms):
    """The dict finder.find wants, produced by the real config.load_database from the written databases."""
    from codebasin import config

    from . import env
    env.reset_compilers()
    return {p: config.load_database(os.path.join(root, f"{p}.json"), root) for p in platforms}


def attribution(state, root, only_codebase=None):
    """{relpath: {line: frozenset(platforms)}} for every counted line (CodeNode and directive lines)."""
    out = {}
    for fn in state.get_filenames():
        if only_codebase is not None and fn not in only_codebase:
            continue
        m = state.get_map(fn)
        tree = state.get_tree(fn)
        lines = {}
        for node in tree.walk():
            ls = getattr(node, "lines", None)
            if ls:
                for ln in ls:
                    lines[ln] = frozenset(m[node]) if node in m else frozenset()
        out[os.path.relpath(fn, os.path.realpath(root))] = lines
    return out
