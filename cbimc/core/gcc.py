"""Ground truth from gcc -E in *batch*: many cases in one translation unit.

Every case is a segment of lines; gcc's diagnostics (`<stdin>:LINE:COL: warning|error`) are mapped
back to segments by line number.  Output tokens carry the segment index.
"""
import bisect
import re
import shutil
import subprocess

GCC = shutil.which("gcc")
GFORTRAN = shutil.which("gfortran")
_DIAG = re.compile(r"^<stdin>:(\d+):(?:\d+:)? (warning|error|fatal error): (.*)$")


def available():
    return GCC is not None


def run_batch(segments, prologue=(), lang="c", extra=(), tool="gcc"):
    """segments: list of lists of lines.  Returns (stdout_text, diags) where diags maps
    segment index -> list of (severity, message); index -1 = prologue."""
    lines = list(prologue)
    starts = []
    for seg in segments:
        starts.append(len(lines) + 1)
        lines.extend(seg)
    src = "\n".join(lines) + "\n"
    if tool == "gfortran":
        cmd = [GFORTRAN, "-cpp", "-E", "-P", "-x", "f95-cpp-input", *extra, "-"]
    else:
        cmd = [GCC, "-E", "-P", "-x", lang, *extra, "-"]
    p = subprocess.run(cmd, input=src, capture_output=True, text=True)
    diags = {}
    for ln in p.stderr.splitlines():
        m = _DIAG.match(ln)
        if not m:
            continue
        lineno = int(m.group(1))
        idx = bisect.bisect_right(starts, lineno) - 1
        diags.setdefault(idx, []).append((m.group(2), m.group(3)))
    return p.stdout, diags


def batch_if(exprs, defines=()):
    """Truth value gcc assigns to each `#if expr`: True / False, or ('warning'|'error', msg) tuples list
    under key diag.  Returns list of dict(value=bool|None, diag=[...])."""
    segs = []
    for i, e in enumerate(exprs):
        segs.append([f"#if {e}", f"T_{i}_", "#else", f"F_{i}_", "#endif"])
    out, diags = run_batch(segs, prologue=[f"#define {d}" for d in defines])
    val = {}
    for m in re.finditer(r"\b([TF])_(\d+)_", out):
        val[int(m.group(2))] = m.group(1) == "T"
    res = []
    for i in range(len(exprs)):
        d = diags.get(i, [])
        err = any(s != "warning" for s, _ in d)
        res.append({"value": None if err else val.get(i), "diag": d})
    return res


def batch_expand(cases, with_if=True):
    """cases: list of (defines, invocation) with defines = list of '#define' payloads ("F(x) x+1").
    Returns per case dict(text=str|None, diag=[...], if_value=bool|None, if_diag=[...]).
    text is the raw expansion text between the markers (None if a marker went missing: some
    earlier segment swallowed it - the caller must re-judge those alone).
    The `#if <invocation>` questions go to a *second* gcc process: gcc reports an error inside a macro
    expansion at the line of the macro definition, which would otherwise be taken for a diagnostic of
    the definition / plain expansion of the same case."""
    def build(kind):
        segs = []
        prev = []
        for i, (defs, inv) in enumerate(cases):
            seg = [f"#undef {n}" for n in prev]
            names = []
            for d in defs:
                seg.append(f"#define {d}")
                names.append(re.match(r"[A-Za-z_]\w*", d).group(0))
            if kind == "expand":
                seg.append(f"S{i}_ {inv} E{i}_")
            else:
                seg += [f"#if {inv}", f"T_{i}_", "#else", f"F_{i}_", "#endif"]
            segs.append(seg)
            prev = names
        return segs

    out, diags = run_batch(build("expand"))
    ifv, ifd = {}, {}
    if with_if:
        out2, ifd = run_batch(build("if"))
        for m in re.finditer(r"\b([TF])_(\d+)_", out2):
            ifv[int(m.group(2))] = m.group(1) == "T"
    res = []
    pos = 0
    for i in range(len(cases)):
        s = out.find(f"S{i}_", pos)
        text = None
        if s >= 0:
            e = out.find(f"E{i}_", s)
            nxt = out.find(f"S{i + 1}_", s)
            if e >= 0 and (nxt < 0 or e < nxt):
                text = out[s + len(f"S{i}_"):e]
                pos = e
        d_if = ifd.get(i, []) if with_if else []
        res.append({"text": text, "diag": diags.get(i, []),
                    "if_value": None if (d_if or not with_if) else ifv.get(i), "if_diag": d_if})
    return res
