"""Reports, known-findings gate, replay files, evidence."""
import hashlib
import json
import os
import time

from . import env

KNOWN_PATH = os.path.join(env.VERIF, "known_findings.json")


def canon(obj):
    return json.dumps(obj, sort_keys=True, separators=(",", ":"), ensure_ascii=True, default=str)


def sha(obj):
    return hashlib.sha256(canon(obj).encode()).hexdigest()[:16]


class Failure(dict):
    """kind: short class of the disagreement; witness: minimal JSON input (already shrunk);
    expected/observed: what the oracle and the implementation said."""

    def __init__(self, kind, witness, expected=None, observed=None, note="", original=None, known_id=None):
        super().__init__(kind=kind, witness=witness, expected=expected, observed=observed, note=note)
        if known_id:
            self["known_id"] = known_id
        if original is not None and original != witness:
            self["original"] = original

    def key(self):
        return canon([self["kind"], self["witness"]])


class Report:
    def __init__(self, pid, level):
        self.pid = pid
        self.level = level
        self.coverage = {}
        self.failures = []
        self.assumptions = []
        self.t0 = time.time()

    def add(self, failures):
        self.failures.extend(failures)

    def bump(self, **kw):
        for k, v in kw.items():
            self.coverage[k] = self.coverage.get(k, 0) + v


def load_known(pid, match=None):
    """Open known findings of a property; match: None | 'witness' | 'repair' filters by match type."""
    try:
        with open(KNOWN_PATH) as f:
            data = json.load(f)
    except FileNotFoundError:
        return []
    out = [k for k in data.get("findings", []) if k.get("property") == pid and k.get("status", "open") == "open"]
    if match:
        out = [k for k in out if k.get("match", {}).get("type", "witness") == match]
    return out


def finalize(report, tier):
    """Gate failures against known findings, write replays + evidence, print verdict lines.
    Returns the process exit code."""
    pid = report.pid
    known = load_known(pid)
    by_id = {k["id"]: k for k in known}
    known_keys = {}
    for k in known:
        m = k.get("match", {})
        if m.get("type", "witness") == "witness":
            for w in m.get("witnesses", []):
                known_keys[canon([w["kind"], w["witness"]])] = k
    distinct = {}
    for f in report.failures:
        distinct.setdefault(f.key(), f)
    new, hit = [], {}
    for key, f in distinct.items():
        kid = f.get("known_id")
        if kid and kid in by_id:              # attributed by micro-repair inside the property module
            hit.setdefault(kid, [by_id[kid], 0, f])[1] += int(f.get("count", 1))
        elif key in known_keys:
            k = known_keys[key]
            hit.setdefault(k["id"], [k, 0, f])[1] += 1
        else:
            new.append(f)
    rdir = os.path.join(env.VERIF, "replays", pid)
    lines = []
    for kid, (k, cnt, f) in sorted(hit.items()):
        lines.append(f"KNOWN-FINDING: property={pid} id={kid} {k.get('what', '')} [cases={cnt} e.g. {canon(f['witness'])[:120]}]")
    for f in sorted(new, key=lambda f: (len(canon(f['witness'])), f.key())):
        os.makedirs(rdir, exist_ok=True)
        path = os.path.join(rdir, sha([f["kind"], f["witness"]]) + ".json")
        with open(path, "w") as fh:
            json.dump({"property": pid, **f}, fh, indent=1, sort_keys=True, default=str)
        lines.append(f"VIOLATION property={pid} replay={path}")
    cov = dict(report.coverage)
    cov.setdefault("exhaustive", False)
    cov["known_findings_listed"] = len(known)
    cov["known_findings_hit"] = {kid: v[1] for kid, v in hit.items()}
    cov.setdefault("failing_cases", len(report.failures))
    cov["distinct_minimal_witnesses"] = len(distinct)
    ev = {
        "property_id": pid,
        "tier": tier,
        "seed": env.SEED,
        "level": report.level,
        "coverage": cov,
        "assumptions": report.assumptions,
        "wall_s": round(time.time() - report.t0, 3),
        "violations": len(new),
        "repo": env.REPO,
    }
    os.makedirs(os.path.join(env.VERIF, "evidence"), exist_ok=True)
    with open(os.path.join(env.VERIF, "evidence", f"{pid}.json"), "w") as fh:
        json.dump(ev, fh, indent=1, sort_keys=True, default=str)
    shown = 0
    for ln in lines:
        if ln.startswith("VIOLATION"):
            shown += 1
            if shown > 40:
                continue
        print(ln)
    if shown > 40:
        print(f"... {shown - 40} more VIOLATION lines suppressed (all replay files written)")
    brief = {k: v for k, v in cov.items() if isinstance(v, (int, float, bool)) and not isinstance(v, str)}
    print(f"[{pid}] tier={tier} seed={env.SEED} wall={ev['wall_s']}s violations={len(new)} known_hit={len(hit)} " + " ".join(f"{k}={v}" for k, v in sorted(brief.items())))
    return 1 if new else 0


def robust(mk, witness, *args):
    """A case failed inside the exploration, now mk(*args) shrinks and documents it.  If the failure cannot be
    reproduced when the case is evaluated alone (mk returns None or breaks), the implementation's answer depended on
    what was evaluated before it in the same process: that is reported as a violation in its own right - it is
    never dropped."""
    try:
        f = mk(*args)
        why = "no failure when re-evaluated alone"
    except Exception as e:  # noqa
        f = None
        why = f"re-evaluation broke: {type(e).__name__}: {e}"
    if f is None:
        f = Failure("history-dependent", witness, expected="the same answer as when the case is evaluated alone in a fresh state",
                    observed="a wrong answer when evaluated after the earlier cases of this run (" + why + ")",
                    note="state kept between independent evaluations (cache / memo / shared default); replay the whole check to reproduce")
    return f


SHRINK_BUDGET_S = float(os.environ.get("VERIF_SHRINK_BUDGET", "90"))


def shrink_within_budget(fails, make, witness_of):
    """make(item) -> Failure|None for every failing item of a shard, until SHRINK_BUDGET_S seconds have been spent
    (and at least one failure is documented).  What is left is reported as ONE further, unminimised violation - a
    failing case is never dropped, but a change that breaks thousands of cases must not cost hours of shrinking."""
    import time

    t0 = time.monotonic()
    out = []
    for i, item in enumerate(fails):
        if out and time.monotonic() - t0 > SHRINK_BUDGET_S:
            rest = len(fails) - i
            out.append(Failure("not-minimised", witness_of(item), expected="agreement with the oracle",
                               observed="%d further failing cases of this shard (this is the first of them)" % rest,
                               note="shrink budget of %gs per shard used up; set VERIF_SHRINK_BUDGET to change it" % SHRINK_BUDGET_S))
            break
        f = make(item)
        if f is not None:
            out.append(f)
    return out


# ------------------------------------------------------------------ hangs of the code under test (env.guard)
def hang_failures(limit=5):
    """Failures for the calls into the code under test that gave no result within the deadline (side file written
    by env.guard in whichever process saw them)."""
    try:
        with open(env.hang_log()) as fh:
            recs = [json.loads(ln) for ln in fh if ln.strip()]
    except OSError:
        return [], 0
    root = env.scratch()
    out, seen = [], set()
    for r in sorted(recs, key=lambda r: len(canon(r))):
        # scratch paths differ from run to run: name them $S1, $S2 so that the witness is stable
        txt = json.dumps(r, default=str)
        for i, d in enumerate(sorted(r.get("scratch_dirs", {}), key=len, reverse=True)):
            txt = txt.replace(d, f"$S{i}")
        txt = txt.replace(root, "$SCRATCH")
        w = json.loads(txt)
        f = Failure("hang", w, expected="a result", observed="no result within the watchdog deadline (endless loop or runaway computation)",
                    note="replay: ./check replay <this file> rebuilds the files and repeats the call under the watchdog")
        if f.key() not in seen:
            seen.add(f.key())
            out.append(f)
    return out[:limit], len(recs)


def replay_hang(w):
    """Repeat the recorded call under the watchdog; {'violates': True} if it hangs again."""
    import shutil

    from codebasin import CodeBase, config, file_parser, finder, platform, preprocessor, report

    base = env.fresh_dir("hang")
    sub = {}
    for i, (d, snap) in enumerate(sorted(w.get("scratch_dirs", {}).items())):
        real = os.path.join(base, f"s{i}")
        sub[d] = real
        for rel, text in snap["files"].items():
            p = os.path.join(real, rel)
            os.makedirs(os.path.dirname(p), exist_ok=True)
            with open(p, "w") as fh:
                fh.write(text)
        for rel, tgt in snap.get("links", {}).items():
            p = os.path.join(real, rel)
            os.makedirs(os.path.dirname(p), exist_ok=True)
            os.symlink(tgt, p)

    def unq(x):
        t = json.dumps(x)
        for d, real in sorted(sub.items(), key=lambda kv: -len(kv[0])):
            t = t.replace(d, real)
        return json.loads(t)

    call = w["call"]
    try:
        if call == "Lexer.tokenize":
            preprocessor.Lexer(w["string"]).tokenize()
        elif call == "ArgumentParser.parse_args":
            config.ArgumentParser(w["compiler"]).parse_args(list(w["argv"]))
        elif call in ("MacroExpander.expand", "ExpressionEvaluator.evaluate"):
            p = platform.Platform("p", "/")
            for n, m in w.get("macros", {}).items():
                mm = preprocessor.macro_from_definition_string(m if "=" in m else f"{n}={m}")
                p.define(mm.name, mm)
            toks = preprocessor.MacroExpander(p).expand(preprocessor.Lexer(w["tokens"]).tokenize())
            if call.startswith("Expr"):
                preprocessor.ExpressionEvaluator(toks).evaluate()
        elif call == "find":
            cbd = unq(w["codebase"])
            cfg = unq(w["configuration"])
            finder.find(cbd["directories"][0], CodeBase(*cbd["directories"], exclude_patterns=cbd["exclude_patterns"]), cfg)
        elif call == "FileParser.parse_file":
            path = unq(w["args"][-1])
            file_parser.FileParser(path).parse_file()
        else:
            return {"violates": None, "note": f"no automatic replay for {call}; the witness holds the arguments and files"}
    except env.Hang as e:
        return {"violates": True, "observed": str(e)}
    except Exception as e:  # noqa
        return {"violates": False, "observed": f"returned with {type(e).__name__}: {e}"}
    finally:
        shutil.rmtree(base, ignore_errors=True)
    return {"violates": False, "observed": "the call returned"}
