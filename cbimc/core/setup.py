"""./check setup - offline, idempotent: verifies the binding to the tree under test and the oracles' tools."""
import compileall
import os
import shutil
import subprocess
import sys

from . import env


def main():
    env.bind()
    import codebasin
    print("codebasin from", os.path.dirname(codebasin.__file__))
    for tool in ("gcc", "gfortran", "git"):
        p = shutil.which(tool)
        print(f"{tool}: {p or 'MISSING (ground-truth cross-check will be skipped)'}")
    d = env.scratch()
    print("scratch:", d)
    return 0
