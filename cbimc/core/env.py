"""Binding to the tree under test, scratch space, seeds.

The package under test is imported from $VERIF_REPO (default /repo), placed first on
sys.path so that it shadows the editable install in /venv.  Nothing is cached between runs.
"""
import atexit
import logging
import os
import shutil
import signal
import sys
import tempfile
import warnings

REPO = os.path.realpath(os.environ.get("VERIF_REPO", "/repo"))
VERIF = os.path.dirname(os.path.dirname(os.path.dirname(os.path.abspath(__file__))))
SEED = int(os.environ.get("VERIF_SEED", "0") or 0)
NPROC = max(1, min(16, os.cpu_count() or 1, int(os.environ.get("VERIF_NPROC", "16"))))

_scratch_root = None
_owner_pid = None


class Capture(logging.Handler):
    """Collects log records of the 'codebasin' logger (and silences lastResort)."""

    def __init__(self):
        super().__init__(level=logging.DEBUG)
        self.records = []

    def emit(self, record):
        self.records.append(record)

    def take(self):
        r, self.records = self.records, []
        return r


capture = Capture()


def bind():
    """Import codebasin from the tree under test; returns the package."""
    if not sys.path or sys.path[0] != REPO:
        sys.path.insert(0, REPO)
    warnings.filterwarnings("ignore", category=DeprecationWarning)
    import codebasin  # noqa

    got = os.path.realpath(codebasin.__file__)
    if not got.startswith(REPO + os.sep):
        raise SystemExit(f"cbimc: codebasin imported from {got}, expected under {REPO}")
    lg = logging.getLogger("codebasin")
    if capture not in lg.handlers:
        lg.addHandler(capture)
    lg.propagate = False
    lg.setLevel(logging.DEBUG)
    return codebasin


def _cleanup():
    global _scratch_root
    if _scratch_root and os.getpid() == _owner_pid:
        shutil.rmtree(_scratch_root, ignore_errors=True)
        _scratch_root = None


def _term(signum, frame):
    _cleanup()
    os._exit(143)


def scratch(sub=None):
    """Per-process-tree scratch directory on tmpfs; removed at exit of the owning process."""
    global _scratch_root, _owner_pid
    if _scratch_root is None:
        base = os.environ.get("VERIF_TMP")
        if not base:
            base = "/dev/shm" if os.access("/dev/shm", os.W_OK) else tempfile.gettempdir()
        _scratch_root = tempfile.mkdtemp(prefix=f"cbimc-{os.getpid()}-", dir=base)
        _owner_pid = os.getpid()
        atexit.register(_cleanup)
        try:
            signal.signal(signal.SIGTERM, _term)
        except ValueError:
            pass
    if sub is None:
        return _scratch_root
    d = os.path.join(_scratch_root, sub)
    os.makedirs(d, exist_ok=True)
    return d


def fresh_dir(prefix="w"):
    return tempfile.mkdtemp(prefix=prefix + "-", dir=scratch())


_cfg_sig = object()


def reset_compilers(force=False):
    """Drop codebasin's process-wide compiler table only when the .cbi/config it would read (relative to the
    current directory) differs from the one it was loaded with: reloading re-validates four TOML files
    against a JSON schema (~60 ms), which would dominate every small case."""
    global _cfg_sig
    from codebasin import config

    p = os.path.join(os.getcwd(), ".cbi", "config")
    try:
        with open(p, "rb") as f:
            sig = (p, f.read())
    except OSError:
        sig = None
    if force or sig != _cfg_sig or sig is not None:
        config._compilers = None
        _cfg_sig = sig
