"""Binding to the tree under test, scratch space, seeds.

The package under test is imported from $VERIF_REPO (default /repo), placed first on
sys.path so that it shadows the editable install in /venv.  Nothing is cached between runs.
"""
import atexit
import json
import logging
import os
import shutil
import signal
import sys
import tempfile
import warnings

REPO = os.path.realpath(os.environ.get("VERIF_REPO", "/repo"))
VERIF = os.path.dirname(os.path.dirname(os.path.dirname(os.path.abspath(__file__))))
SEED = int(os.environ.get("VERIF_SEED", "0") or 0)
NPROC = max(1, min(16, os.cpu_count() or 1, int(os.environ.get("VERIF_NPROC", "16"))))

_scratch_root = None
_owner_pid = None


class Capture(logging.Handler):
    """Collects log records of the 'codebasin' logger (and silences lastResort)."""

    def __init__(self):
        super().__init__(level=logging.DEBUG)
        self.records = []

    def emit(self, record):
        self.records.append(record)

    def take(self):
        r, self.records = self.records, []
        return r


capture = Capture()


def bind():
    """Import codebasin from the tree under test; returns the package."""
    if not sys.path or sys.path[0] != REPO:
        sys.path.insert(0, REPO)
    warnings.filterwarnings("ignore", category=DeprecationWarning)
    import codebasin  # noqa

    got = os.path.realpath(codebasin.__file__)
    if not got.startswith(REPO + os.sep):
        raise SystemExit(f"cbimc: codebasin imported from {got}, expected under {REPO}")
    lg = logging.getLogger("codebasin")
    if capture not in lg.handlers:
        lg.addHandler(capture)
    lg.propagate = False
    lg.setLevel(logging.DEBUG)
    _install_guards()
    return codebasin


# ------------------------------------------------------------------ call watchdog
# An endless loop in the code under test must become a verdict about one case, not a check that never ends.
# Entry points of codebasin are wrapped (in this process only) so that a call which gives no result within
# CALL_DEADLINE seconds raises Hang inside the call; the harness code around it records it like any exception.
# Every hang is also written, with what is needed to repeat the call, to a side file the main process reads
# (core/result.hang_failures).  After MAX_HANGS hangs a process stops evaluating (HangSkip): the run is already
# failing, and thousands of further cases at several seconds each would only delay the verdict.
CALL_DEADLINE = float(os.environ.get("VERIF_CALL_DEADLINE", "60"))
MAX_HANGS = 3
_hangs = 0
_armed = False


class Hang(Exception):
    pass


class HangSkip(BaseException):
    pass


def _deadline():
    return CALL_DEADLINE if _hangs == 0 else min(CALL_DEADLINE, 10.0)


def _on_alarm(signum, frame):
    raise Hang("no result within %gs (watchdog): endless loop or runaway computation" % _deadline())


def _snapshot_dir(d, limit=200_000):
    files, links, size = {}, {}, 0
    for dp, dns, fns in os.walk(d):
        for fn in sorted(fns + [x for x in dns if os.path.islink(os.path.join(dp, x))]):
            p = os.path.join(dp, fn)
            rel = os.path.relpath(p, d)
            if os.path.islink(p):
                links[rel] = os.readlink(p)
                continue
            try:
                with open(p, errors="replace") as fh:
                    t = fh.read()
            except OSError:
                continue
            size += len(t)
            if size > limit:
                return files, links
            files[rel] = t
    return files, links


def _describe_call(fn, a, k):
    """JSON description of a guarded call, sufficient to repeat it (see result.replay_hang)."""
    import re

    name = fn.__qualname__
    w = {"call": name}
    try:
        if name == "Lexer.tokenize":
            w["string"] = a[0].string
        elif name == "ArgumentParser.parse_args":
            w["compiler"], w["argv"] = a[0].name, list(a[1])
        elif name in ("MacroExpander.expand", "ExpressionEvaluator.evaluate"):
            toks = a[1] if name == "MacroExpander.expand" else a[0].tokens
            w["tokens"] = " ".join(str(t) for t in toks)
            if name == "MacroExpander.expand":
                w["macros"] = {str(n): str(m) for n, m in getattr(a[0].platform, "_definitions", {}).items()}
        else:
            reprs = [repr(x)[:2000] for x in a] + [f"{kk}={vv!r}"[:2000] for kk, vv in k.items()]
            if name == "FileParser.parse_file":
                reprs.append(a[0]._filename)
            if name == "find":
                w["codebase"] = {"directories": [str(d) for d in a[1]._directories], "exclude_patterns": list(a[1]._excludes)}
                w["configuration"] = a[2]
            root = scratch()
            tops = sorted({m.group(0) for r in reprs + [json.dumps(w, default=str)] for m in re.finditer(re.escape(root) + r"/[^/'\"\s,)]+", r)})
            w["args"] = reprs
            w["scratch_dirs"] = {}
            for t in tops[:3]:
                if os.path.isdir(t):
                    files, links = _snapshot_dir(t)
                    w["scratch_dirs"][t] = {"files": files, "links": links}
    except Exception as e:  # noqa
        w["describe_error"] = f"{type(e).__name__}: {e}"
    return w


def hang_log():
    return os.path.join(scratch(), "hangs.jsonl")


def guard(fn):
    import functools
    import threading

    @functools.wraps(fn)
    def wrapper(*a, **k):
        global _armed, _hangs
        # outermost call only; leave a check's own (shorter) timer alone
        if _armed or threading.current_thread() is not threading.main_thread() or signal.getitimer(signal.ITIMER_REAL)[0] > 0:
            return fn(*a, **k)
        if _hangs >= MAX_HANGS:
            raise HangSkip(f"{_hangs} calls into the code under test did not return in this process; evaluation abandoned")
        _armed = True
        old = signal.signal(signal.SIGALRM, _on_alarm)
        # re-fires every second: code that swallows the exception and keeps looping is interrupted again
        signal.setitimer(signal.ITIMER_REAL, _deadline(), 1.0)
        try:
            return fn(*a, **k)
        except Hang:
            signal.setitimer(signal.ITIMER_REAL, 0)
            _hangs += 1
            try:
                with open(hang_log(), "a") as fh:
                    fh.write(json.dumps(_describe_call(fn, a, k), default=str) + "\n")
            except Exception:  # noqa
                pass
            raise
        finally:
            signal.setitimer(signal.ITIMER_REAL, 0)
            signal.signal(signal.SIGALRM, old)
            _armed = False

    wrapper._cbimc_guard = True
    return wrapper


def _install_guards():
    from codebasin import config, file_parser, finder, preprocessor, report

    for obj, name in ((finder, "find"), (file_parser.FileParser, "parse_file"), (preprocessor.MacroExpander, "expand"), (preprocessor.ExpressionEvaluator, "evaluate"),
                      (preprocessor.Lexer, "tokenize"), (config.ArgumentParser, "parse_args"), (config, "load_database"), (report, "find_duplicates")):
        f = getattr(obj, name, None)
        if f is not None and not getattr(f, "_cbimc_guard", False):
            setattr(obj, name, guard(f))


def _cleanup():
    global _scratch_root
    if _scratch_root and os.getpid() == _owner_pid:
        shutil.rmtree(_scratch_root, ignore_errors=True)
        _scratch_root = None


def _term(signum, frame):
    _cleanup()
    os._exit(143)


def scratch(sub=None):
    """Per-process-tree scratch directory on tmpfs; removed at exit of the owning process."""
    global _scratch_root, _owner_pid
    if _scratch_root is None:
        base = os.environ.get("VERIF_TMP")
        if not base:
            base = "/dev/shm" if os.access("/dev/shm", os.W_OK) else tempfile.gettempdir()
        _scratch_root = tempfile.mkdtemp(prefix=f"cbimc-{os.getpid()}-", dir=base)
        _owner_pid = os.getpid()
        atexit.register(_cleanup)
        try:
            signal.signal(signal.SIGTERM, _term)
        except ValueError:
            pass
    if sub is None:
        return _scratch_root
    d = os.path.join(_scratch_root, sub)
    os.makedirs(d, exist_ok=True)
    return d


def fresh_dir(prefix="w"):
    return tempfile.mkdtemp(prefix=prefix + "-", dir=scratch())


_cfg_sig = object()


def reset_compilers(force=False):
    """Drop codebasin's process-wide compiler table only when the .cbi/config it would read (relative to the
    current directory) differs from the one it was loaded with: reloading re-validates four TOML files
    against a JSON schema (~60 ms), which would dominate every small case."""
    global _cfg_sig
    from codebasin import config

    p = os.path.join(os.getcwd(), ".cbi", "config")
    try:
        with open(p, "rb") as f:
            sig = (p, f.read())
    except OSError:
        sig = None
    if force or sig != _cfg_sig or sig is not None:
        config._compilers = None
        _cfg_sig = sig
