"""Deterministic sharding over worker processes (fork, started once per map)."""
import multiprocessing as mp
import os
import sys
import traceback

from . import env


def _wrap(args):
    fn, idx, item = args
    try:
        return idx, fn(item), None
    except BaseException:  # report, never hang the pool
        return idx, None, traceback.format_exc()


def pmap(fn, items, nproc=None, chunksize=1):
    """Apply top-level function fn to every item; results in item order.

    A worker exception is a harness error (not a property verdict): re-raised here.
    """
    items = list(items)
    n = min(nproc or env.NPROC, max(1, len(items)))
    env.scratch()  # create before fork so that children share it and do not own it
    if n <= 1 or os.environ.get("VERIF_SERIAL"):
        out = [_wrap((fn, i, it)) for i, it in enumerate(items)]
    else:
        ctx = mp.get_context("fork")
        with ctx.Pool(n) as pool:
            out = list(pool.imap_unordered(_wrap, [(fn, i, it) for i, it in enumerate(items)], chunksize))
    out.sort(key=lambda r: r[0])
    for idx, res, err in out:
        if err:
            sys.stderr.write(err)
            raise RuntimeError(f"worker failed on shard {idx}")
    return [r for _, r, _ in out]
