"""Deterministic sharding over worker processes (fork, started once per map).

concurrent.futures is used rather than multiprocessing.Pool because it notices a worker that died
(BrokenProcessPool) instead of waiting for its result for ever; shards lost that way are re-run
once in a fresh pool, then serially.  A map that makes no progress for VERIF_MAP_STALL seconds is a
harness error, never a silent hang.
"""
import concurrent.futures as cf
import multiprocessing as mp
import os
import sys
import time
import traceback

from . import env

STALL = int(os.environ.get("VERIF_MAP_STALL", "900"))


class Aborted(RuntimeError):
    """Workers stopped evaluating after repeated hangs of the code under test (env.HangSkip)."""


def _wrap(fn, idx, item):
    try:
        return idx, fn(item), None
    except env.HangSkip as e:
        return idx, None, "HANGSKIP: " + str(e)
    except BaseException:  # report, never hang the pool
        return idx, None, traceback.format_exc()


def _wrap_many(fn, batch):
    return [_wrap(fn, i, it) for i, it in batch]


def _run_pool(fn, todo, n):
    """todo: list of (idx, item).  Returns (done results, indices not completed)."""
    out = []
    left = dict(todo)
    ctx = mp.get_context("fork")
    ex = cf.ProcessPoolExecutor(max_workers=n, mp_context=ctx)
    try:
        size = max(1, len(todo) // (n * 6))
        batches = [todo[i:i + size] for i in range(0, len(todo), size)]
        futs = [ex.submit(_wrap_many, fn, b) for b in batches]
        pending = set(futs)
        last = time.time()
        while pending:
            done, pending = cf.wait(pending, timeout=10, return_when=cf.FIRST_COMPLETED)
            if done:
                last = time.time()
            for f in done:
                try:
                    rs = f.result()
                except cf.process.BrokenProcessPool:
                    return out, sorted(left)
                for r in rs:
                    out.append(r)
                    left.pop(r[0], None)
            if time.time() - last > STALL:
                raise RuntimeError(f"no shard finished for {STALL}s ({len(pending)} batches pending): harness stalled")
        return out, []
    finally:
        ex.shutdown(wait=False, cancel_futures=True)


def pmap(fn, items, nproc=None, chunksize=1):
    """Apply top-level function fn to every item; results in item order.

    A worker exception is a harness error (not a property verdict): re-raised here.
    """
    items = list(items)
    n = min(nproc or env.NPROC, max(1, len(items)))
    env.scratch()  # create before fork so that children share it and do not own it
    todo = list(enumerate(items))
    if n <= 1 or os.environ.get("VERIF_SERIAL"):
        out = [_wrap(fn, i, it) for i, it in todo]
    else:
        out, lost = _run_pool(fn, todo, n)
        if lost:
            sys.stderr.write(f"cbimc: a worker process died; re-running {len(lost)} shard(s)\n")
            more, lost2 = _run_pool(fn, [(i, items[i]) for i in lost], n)
            out += more
            out += [_wrap(fn, i, items[i]) for i in lost2]
    out.sort(key=lambda r: r[0])
    for idx, res, err in out:
        if err and err.startswith("HANGSKIP"):
            raise Aborted(err)
    for idx, res, err in out:
        if err:
            sys.stderr.write(err)
            raise RuntimeError(f"worker failed on shard {idx}")
    return [r for _, r, _ in out]
