"""./check <ID> [--tier quick|thorough] | ./check replay <file> | ./check setup | ./check all"""
import argparse
import importlib
import json
import os
import sys
import time

from .core import env, result


def load(pid):
    return importlib.import_module(f"cbimc.props.{pid.lower()}")


def run_check(pid, tier):
    from .core import par

    env.bind()
    mod = load(pid)
    try:
        report = mod.run(tier)
        abandoned = None
    except (par.Aborted, env.HangSkip, RuntimeError) as e:
        # repeated hangs of the code under test: the exploration was abandoned, the hangs themselves are the verdict
        if not result.hang_failures()[0]:
            raise
        abandoned = f"{type(e).__name__}: {e}"
        level = "exploration"
        try:
            with open(os.path.join(env.VERIF, "MANIFEST.json")) as fh:
                level = next(c["level_claimed"]["category"] for c in json.load(fh)["checks"] if c["property_id"] == pid)
        except Exception:  # noqa
            pass
        report = result.Report(pid, level)
        report.coverage.update({"exhaustive": False, "evaluations": 0, "exploration_abandoned": abandoned})
    hangs, n = result.hang_failures()
    if hangs:
        report.add(hangs)
        report.coverage["calls_without_result"] = n
    return result.finalize(report, tier)


def main(argv):
    if not argv:
        print(__doc__)
        return 2
    cmd = argv[0]
    if cmd == "replay":
        env.bind()
        with open(argv[1]) as f:
            rec = json.load(f)
        mod = load(rec["property"])
        out = result.replay_hang(rec["witness"]) if rec.get("kind") == "hang" else mod.replay(rec["witness"], rec.get("kind"))
        print(json.dumps(out, indent=1, default=str))
        if out.get("violates"):
            print(f"VIOLATION property={rec['property']} replay={os.path.abspath(argv[1])}")
            return 1
        return 0
    if cmd == "setup":
        from .core import setup
        return setup.main()
    ap = argparse.ArgumentParser()
    ap.add_argument("pid")
    ap.add_argument("--tier", default=os.environ.get("VERIF_TIER", "quick"), choices=["quick", "thorough"])
    a = ap.parse_args(argv)
    if a.pid == "all":
        rc = 0
        props = sorted(f[:-3].upper() for f in os.listdir(os.path.join(os.path.dirname(__file__), "props")) if f.startswith("c") and f.endswith(".py"))
        for p in props:
            t = time.time()
            r = os.system(f"cd {env.VERIF} && ./check {p} --tier {a.tier}")
            rc |= 1 if r else 0
        return rc
    return run_check(a.pid.upper(), a.tier)


if __name__ == "__main__":
    sys.exit(main(sys.argv[1:]))
