"""./check <ID> [--tier quick|thorough] | ./check replay <file> | ./check setup | ./check all"""
import argparse
import importlib
import json
import os
import sys
import time

from .core import env, result


def load(pid):
    return importlib.import_module(f"cbimc.props.{pid.lower()}")


def run_check(pid, tier):
    env.bind()
    mod = load(pid)
    report = mod.run(tier)
    return result.finalize(report, tier)


def main(argv):
    if not argv:
        print(__doc__)
        return 2
    cmd = argv[0]
    if cmd == "replay":
        env.bind()
        with open(argv[1]) as f:
            rec = json.load(f)
        mod = load(rec["property"])
        out = mod.replay(rec["witness"], rec.get("kind"))
        print(json.dumps(out, indent=1, default=str))
        if out.get("violates"):
            print(f"VIOLATION property={rec['property']} replay={os.path.abspath(argv[1])}")
            return 1
        return 0
    if cmd == "setup":
        from .core import setup
        return setup.main()
    ap = argparse.ArgumentParser()
    ap.add_argument("pid")
    ap.add_argument("--tier", default=os.environ.get("VERIF_TIER", "quick"), choices=["quick", "thorough"])
    a = ap.parse_args(argv)
    if a.pid == "all":
        rc = 0
        props = sorted(f[:-3].upper() for f in os.listdir(os.path.join(os.path.dirname(__file__), "props")) if f.startswith("c") and f.endswith(".py"))
        for p in props:
            t = time.time()
            r = os.system(f"cd {env.VERIF} && ./check {p} --tier {a.tier}")
            rc |= 1 if r else 0
        return rc
    return run_check(a.pid.upper(), a.tier)


if __name__ == "__main__":
    sys.exit(main(sys.argv[1:]))
