"""C01 - conditional inclusion equals what a real preprocessor does.

E1: every well-formed program with <= D directives (nesting <= 3) over an alphabet of
    conditions / #define / #undef, a unique code line after every directive; each program is
    analysed by the real finder.find for 10 -D configurations at once (one platform per
    configuration) and the per-line attribution compared with the reference machine.
S1: explicit-state BFS per configuration: one transition appends one line; the file is
    re-parsed and re-associated (prefix-closed); state key = reference (stack, macro table)
    x implementation (kinds of the _latest_node ancestor chain, platform macro table).
Ground truth: gcc -E in batch judges every (program, configuration): pairs it diagnoses are
excluded, and the reference's code-line selection must equal gcc's.
"""
import os
import re

from ..core import env, gcc, par, result, shrink
from ..core.result import Failure, Report, robust
from ..ref import cond

ID = "C01"

CONDS_Q = ["0", "1", "A", "defined(A)", "A == 1"]
CONDS_T = CONDS_Q + ["!defined(A)", "B", "defined A && defined(B)", "A > B", "!defined(B) || A", "A + B == 2", "A + 0", "A - 1", "A == 1 || A == 2", "A - 1 - 1 == 0", "!defined A && defined B", "A != 0 && 10 / A > 1"]
DEFS_Q = [("define", "A", ""), ("define", "A", "1"), ("undef", "A")]
DEFS_T = DEFS_Q + [("define", "A", "0"), ("define", "A", "2"), ("define", "B", "1"), ("undef", "B")]

# configurations: -D strings exactly as finder.find receives them, and the macro table they mean
CONFIGS = []
for an, (ad, at) in {"Au": (None, None), "Ae": ("A=", ""), "A0": ("A=0", "0"), "A1": ("A", "1"), "A2": ("A=2", "2")}.items():
    for bn, (bd, bt) in {"Bu": (None, None), "B1": ("B=1", "1")}.items():
        defs = [d for d in (ad, bd) if d is not None]
        table = {}
        if at is not None:
            table["A"] = at
        if bt is not None:
            table["B"] = bt
        CONFIGS.append((an + bn, defs, table))


def lines_of(program, ext=".c"):
    return [cond.render(ev, i + 1, fortran=ext.lower() == ".f90") for i, ev in enumerate(program)]


# ------------------------------------------------------------------ the real code
def impl_attr(program, configs, ext=".c", workdir=None, render=None):
    """Per configuration: set of attributed line numbers, or ('EXC', msg).  One finder.find call
    with one platform per configuration; on an exception, falls back to one call per configuration."""
    from codebasin import CodeBase, finder

    d = workdir or env.fresh_dir("c01")
    path = os.path.join(d, "t" + ext)
    with open(path, "w") as f:
        f.write("\n".join(render(program) if render else lines_of(program, ext)) + "\n")

    def go(cfgs):
        cfg = {n: [{"file": path, "defines": list(defs), "include_paths": [], "include_files": []}] for n, defs, _ in cfgs}
        state = finder.find(d, CodeBase(d), cfg)
        res = {n: set() for n, _, _ in cfgs}
        for node, plats in state.get_map(path).items():
            ls = getattr(node, "lines", None)
            if ls:
                for p in plats:
                    res[p].update(ls)
        return res

    try:
        return go(configs)
    except Exception:  # noqa
        out = {}
        for c in configs:
            try:
                out.update(go([c]))
            except Exception as e:  # noqa
                out[c[0]] = ("EXC", f"{type(e).__name__}: {str(e)[:100]}")
        return out


def expected(program, table):
    try:
        att = cond.run(program, table)
    except cond.IllFormed:
        return None
    return {i + 1 for i, a in enumerate(att) if a}


def judge(program, config, ext=".c"):
    """None = ill-formed; [] = fine; else [(kind, expected, observed)]"""
    exp = expected(program, config[2])
    if exp is None:
        return None
    got = impl_attr(program, [config], ext)[config[0]]
    if isinstance(got, tuple):
        return [("exception", sorted(exp), got[1])]
    if got != exp:
        return [("attribution", sorted(exp), sorted(got))]
    return []


def _cands(w):
    prog, cfgi = w
    n = len(prog)
    for i in range(n):
        yield (prog[:i] + prog[i + 1:], cfgi)
    for i in range(n):
        for j in range(i + 1, n):
            yield (prog[:i] + prog[i + 1:j] + prog[j + 1:], cfgi)
    for i in range(n):
        for j in range(i + 1, n):
            for k in range(j + 1, min(n, j + 4)):
                yield (prog[:i] + prog[i + 1:j] + prog[j + 1:k] + prog[k + 1:], cfgi)
    for i, ev in enumerate(prog):
        if ev[0] in ("if", "elif") and ev[1] not in ("0", "1"):
            for c in ("0", "1"):
                yield (prog[:i] + [(ev[0], c)] + prog[i + 1:], cfgi)
    if cfgi != 0:
        yield (prog, 0)


def mk_failure(program, cfgi, ext=".c"):
    j = judge(program, CONFIGS[cfgi], ext)
    if not j:
        return None
    kind = j[0][0]

    def fails(w):
        jj = judge(list(w[0]), CONFIGS[w[1]], ext)
        return bool(jj) and jj[0][0] == kind

    prog, ci = shrink.minimize((list(program), cfgi), _cands, fails)
    jj = judge(prog, CONFIGS[ci], ext)[0]
    return Failure(kind, {"lines": lines_of(prog, ext), "defines": CONFIGS[ci][1], "program": [list(e) for e in prog], "config": CONFIGS[ci][0], "ext": ext},
                   expected=jj[1], observed=jj[2], original={"lines": lines_of(program, ext), "config": CONFIGS[cfgi][0]})


# ------------------------------------------------------------------ E1
def _e1(arg):
    progs, ext, use_gcc = arg
    d = env.fresh_dir("c01")
    judged = ill = 0
    fails = []
    outcomes = set()
    gccjobs = []
    for dirs in progs:
        program = cond.interleave([tuple(x) for x in dirs])
        exps = [expected(program, c[2]) for c in CONFIGS]
        good = [c for c, e in zip(CONFIGS, exps) if e is not None]
        ill += len(CONFIGS) - len(good)
        if not good:
            continue
        got = impl_attr(program, good, ext, d)
        for ci, (c, e) in enumerate(zip(CONFIGS, exps)):
            if e is None:
                continue
            judged += 1
            outcomes.add(frozenset(e))
            g = got[c[0]]
            if isinstance(g, tuple) or g != e:
                fails.append((program, ci))
            if use_gcc:
                gccjobs.append((program, ci, e))
    out = []
    seen = set()
    wit = lambda pc: {"lines": lines_of(pc[0], ext), "config": CONFIGS[pc[1]][0], "defines": CONFIGS[pc[1]][1]}  # noqa
    for f in result.shrink_within_budget(fails, lambda pc: robust(mk_failure, wit(pc), pc[0], pc[1], ext), wit):
        if f.key() not in seen:
            seen.add(f.key())
            out.append(f)
    gstat = _gcc_validate(gccjobs) if gccjobs else (0, 0, [])
    return len(progs), judged, ill, len(fails), out, len(outcomes), gstat


def _gcc_validate(jobs, tool="gcc"):
    """gcc decides which code lines survive; must equal the reference's code-line set.
    Programs the reference accepts but gcc diagnoses are oracle disagreements too."""
    segs = []
    for si, (program, ci, exp) in enumerate(jobs):
        seg = ["#undef A", "#undef B"]
        for name, val in CONFIGS[ci][2].items():
            seg.append(f"#define {name} {val}".rstrip())
        for i, ev in enumerate(program):
            seg.append(f"L{si}_{i + 1}_" if ev[0] == "code" else cond.render(ev, i + 1))
        segs.append(seg)
    out, diags = gcc.run_batch(segs, tool=tool)
    alive = {}
    for m in re.finditer(r"\bL(\d+)_(\d+)_", out):
        alive.setdefault(int(m.group(1)), set()).add(int(m.group(2)))
    dis = []
    for si, (program, ci, exp) in enumerate(jobs):
        code = {i + 1 for i, ev in enumerate(program) if ev[0] == "code"}
        if si in diags:
            dis.append((lines_of(program), CONFIGS[ci][0], "gcc diagnoses: %s" % diags[si][:1]))
        elif alive.get(si, set()) != (exp & code):
            dis.append((lines_of(program), CONFIGS[ci][0], "gcc keeps %s, reference %s" % (sorted(alive.get(si, set())), sorted(exp & code))))
    return len(jobs), len(dis), dis[:5]


def _gcc_illformed_sample(progs):
    """The converse direction on a slice: pairs the reference rejects should be diagnosed by gcc (informational)."""
    jobs = []
    for dirs in progs:
        program = cond.interleave([tuple(x) for x in dirs])
        for ci, c in enumerate(CONFIGS):
            if expected(program, c[2]) is None:
                jobs.append((program, ci))
    segs = []
    for si, (program, ci) in enumerate(jobs):
        seg = ["#undef A", "#undef B"] + [f"#define {n} {v}".rstrip() for n, v in CONFIGS[ci][2].items()]
        seg += [cond.render(ev, i + 1) if ev[0] != "code" else f"L{si}_{i}_" for i, ev in enumerate(program)]
        segs.append(seg)
    if not segs:
        return 0, 0
    _, diags = gcc.run_batch(segs)
    return len(jobs), sum(1 for si in range(len(jobs)) if si in diags)


# ------------------------------------------------------------------ S1
def _impl_state(program, config, d):
    """Parse + associate manually to read the implementation's abstract state afterwards."""
    from codebasin import finder, platform, preprocessor

    path = os.path.join(d, "s.c")
    with open(path, "w") as f:
        f.write("\n".join(lines_of(program)) + ("\n" if program else ""))
    st = finder.ParserState(True)
    st.insert_file(path)
    pf = platform.Platform("p", d)
    for ds in config[1]:
        m = preprocessor.macro_from_definition_string(ds)
        pf.define(m.name, m)
    st.associate(path, pf)
    tree = st.get_tree(path)
    chain = []
    n = tree._latest_node
    while n is not None:
        chain.append(type(n).__name__)
        n = n.parent
    table = tuple(sorted((k, " ".join(str(t) for t in v.replacement)) for k, v in pf._definitions.items()))
    used = set()
    for node, plats in st.get_map(path).items():
        ls = getattr(node, "lines", None)
        if ls and "p" in plats:
            used.update(ls)
    return (tuple(chain), table), used


def _s_events(conds, defs):
    ev = [("code",)] + [("if", c) for c in conds] + [("ifdef", "A"), ("ifndef", "A")] + [("elif", c) for c in conds]
    return ev + [("else",), ("endif",)] + list(defs)


def _s_expand(arg):
    hist, cfgi, conds, defs, maxdepth = arg
    config = CONFIGS[cfgi]
    d = env.fresh_dir("c01s")
    succ = {}
    fails = []
    trans = pruned = 0
    base = cond.Machine(config[2])
    try:
        base_att = [base.step(tuple(e)) for e in hist]
    except cond.IllFormed:
        return hist, {}, [], 0, 0
    for ev in _s_events(conds, defs):
        m = cond.Machine(config[2])
        m.table = dict(base.table)
        m.stack = [list(f) for f in base.stack]
        if ev[0] in ("if", "ifdef", "ifndef") and len(m.stack) >= maxdepth:
            continue
        try:
            a = m.step(ev)
        except cond.IllFormed:
            pruned += 1
            succ[ev] = "ILL"
            continue
        trans += 1
        program = [tuple(e) for e in hist] + [ev]
        exp = {i + 1 for i, x in enumerate(base_att + [a]) if x}
        try:
            ikey, used = _impl_state(program, config, d)
        except Exception as e:  # noqa
            succ[ev] = "VIOL"
            fails.append((program, cfgi))
            continue
        if used != exp:
            succ[ev] = "VIOL"
            fails.append((program, cfgi))
            continue
        succ[ev] = (ikey, m.key())
    return hist, succ, fails, trans, pruned


def explore_s(cfgis, conds, defs, depth, maxdepth=3):
    states = set()
    transitions = pruned = conflicts = 0
    failing = []
    samples = []
    maxd = 0
    frontier_empty = True
    init = {}
    frontier = []
    for ci in cfgis:
        k = ("init", ci)
        states.add(k)
        frontier.append((k, [], ci))
    expanded = {}
    reps = {}
    for level in range(depth):
        if not frontier:
            break
        maxd = level + 1
        res = par.pmap(_s_expand, [(h, ci, conds, defs, maxdepth) for _, h, ci in frontier], chunksize=4)
        nxt = []
        for (key, _, ci), (hist, succ, fails, t, pr) in zip(frontier, res):
            transitions += t
            pruned += pr
            failing.extend(fails)
            if key in expanded:
                if expanded[key] != succ:
                    conflicts += 1
                continue
            expanded[key] = succ
            for ev, s in succ.items():
                if s in ("ILL", "VIOL"):
                    continue
                sk = (ci, s)
                h2 = list(hist) + [ev]
                if sk not in states:
                    states.add(sk)
                    reps[sk] = 1
                    nxt.append((sk, h2, ci))
                    if len(samples) < 3 and len(h2) >= 4:
                        samples.append({"config": CONFIGS[ci][0], "history": lines_of(h2), "state": repr(s)[:200]})
                elif reps.get(sk, 0) < 2:
                    reps[sk] = reps.get(sk, 0) + 1
                    nxt.append((sk, h2, ci))
        frontier = nxt
    return {"states": len(states), "transitions": transitions, "pruned_illformed": pruned, "abstraction_conflicts": conflicts,
            "max_depth": maxd, "frontier_empty": not frontier, "samples": samples}, failing


# ------------------------------------------------------------------ entry points
def _chunks(xs, n):
    for i in range(0, len(xs), n):
        yield xs[i:i + n]


def _mk(arg):
    return robust(mk_failure, {"lines": lines_of(arg[0]), "config": CONFIGS[arg[1]][0]}, arg[0], arg[1])


def run(tier, ext=".c", pid=ID):
    rep = Report(pid, "model_checking")
    if tier == "quick":
        dmax, conds, defs, sdepth = 5, CONDS_Q, DEFS_Q, 6
        gcc_every = True
    else:
        dmax, conds, defs, sdepth = 6, CONDS_Q + ["B", "defined A && defined(B)"], DEFS_Q + [("define", "B", "1")], 12
        gcc_every = True
    progs = cond.gen_directives(dmax, conds, defs)
    # extension: full condition/define alphabet at a smaller size, and a seed-chosen 3-condition alphabet one step deeper
    progs_full = cond.gen_directives(4 if tier == "quick" else 5, CONDS_T, DEFS_T, macros=("A", "B"))
    rot = env.SEED % len(CONDS_T)
    ext_conds = [CONDS_T[(rot + 3 * k) % len(CONDS_T)] for k in range(2)]
    progs_ext = cond.gen_directives(dmax + 1, ext_conds, DEFS_Q[:1] if tier == "quick" else DEFS_Q[1:3], macros=())
    # indirect macros: A's replacement names B, and B changes between two textually identical conditions
    progs_ind = cond.gen_directives(6 if tier == "quick" else 7, ["A"], [("define", "A", "B"), ("define", "B", "1"), ("undef", "B")], maxdepth=2, macros=())
    allp = progs + progs_full + progs_ext + progs_ind
    use_gcc = gcc.available() and ext == ".c"
    res = par.pmap(_e1, [(c, ext, use_gcc and gcc_every) for c in _chunks(allp, 250)])
    for r in res:
        rep.add(r[4])
    judged = sum(r[1] for r in res)
    gchk = sum(r[6][0] for r in res)
    gdis = sum(r[6][1] for r in res)
    gex = [x for r in res for x in r[6][2]][:5]
    conv = _gcc_illformed_sample(progs[:400]) if use_gcc else (0, 0)
    if ext == ".c":
        sinfo, sfail = explore_s(range(len(CONFIGS)), conds, defs, sdepth)
        uniq = []
        seen = set()
        for p, ci in sfail:
            k = (tuple(p), ci)
            if k not in seen:
                seen.add(k)
                uniq.append((_close(p), ci))
        fl = par.pmap(_mk, uniq, chunksize=2)
        rep.add([f for f in fl if f])
    else:
        sinfo = {"states": 0, "transitions": 0, "samples": []}
    rep.coverage.update({
        "states": sinfo["states"], "transitions": sinfo["transitions"],
        "traces_validated_against_impl": sinfo["transitions"] + judged,
        "evaluations": judged + sinfo["transitions"], "distinct_nontrivial": judged,
        "rule": "E1: all well-formed programs with <=%d directives (nesting<=3) over conditions %s and %d define/undef events (+ full alphabet "
                "at <=%d, + seed-chosen alphabet %s at <=%d), x 10 -D configurations; non-trivial = (program, configuration) the reference accepts "
                "(no diagnostic); S1: BFS depth %d, one transition = one more line" % (dmax, conds, len(defs), 4 if tier == "quick" else 5, ext_conds, dmax + 1, sdepth),
        "programs": len(allp), "pairs_judged": judged, "pairs_illformed": sum(r[2] for r in res),
        "failing_cases": sum(r[3] for r in res), "distinct_expected_outcomes_per_shard_sum": sum(r[5] for r in res),
        "S1": {k: v for k, v in sinfo.items() if k != "samples"},
        "oracle_gcc": {"available": use_gcc, "pairs_checked": gchk, "disagreements": gdis, "examples": gex,
                       "converse_sample": {"reference_rejects": conv[0], "gcc_diagnoses": conv[1]}},
        "samples": [{"lines": lines_of(cond.interleave(allp[len(allp) // 3])), "configs": [c[0] for c in CONFIGS]}] + sinfo["samples"],
        "exhaustive": True,   # E1 enumerates its universe completely; whether the S1 search closed is reported separately
    })
    rep.coverage["S1_frontier_empty_at_horizon"] = sinfo.get("frontier_empty")
    rep.assumptions = ["reference = conditional machine ref/cond.py (validated against gcc -E on every judged pair)",
                       "pairs gcc would diagnose (empty macro in #if, incompatible redefinition, unbalanced chains) are excluded",
                       "directive lines: attributed iff their chain is reached; only .lines membership is compared, not node boundaries"]
    return rep


def _close(program):
    """Close open groups so that a violating prefix is a complete, replayable program."""
    depth = 0
    for ev in program:
        if ev[0] in ("if", "ifdef", "ifndef"):
            depth += 1
        elif ev[0] == "endif":
            depth -= 1
    return list(program) + [("endif",)] * depth


def replay(witness, kind=None):
    program = [tuple(e) for e in witness["program"]]
    cfg = [c for c in CONFIGS if c[0] == witness["config"]][0]
    j = judge(program, cfg, witness.get("ext", ".c"))
    return {"violates": bool(j), "well_formed": j is not None, "detail": j, "lines": lines_of(program, witness.get("ext", ".c")), "defines": cfg[1]}
