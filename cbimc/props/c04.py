"""C04 - #include resolution and attribution across files follow compiler rules.

E: a four-directory tree (src/ with the TU, src/sub/, inc1/, inc2/); the header h.h present in
   every subset of the four directories, each copy with its own marker macro and a body that
   reveals a second processing; guard style none / #ifndef guard / shared guard name / #pragma
   once; helper headers that include h.h themselves from another directory; the TU = every
   sequence of <= 2 (quick) / <= 3 (thorough) include directives (quote, angle, via helpers,
   computed) followed by probes of the marker macros; every ordered -I / -isystem search list
   over inc1, inc2 passed as a real command line through config.load_database; -include on/off;
   for two-directory search lists a companion platform analyses the same TU first with the list
   reversed (shared parse trees: what this command resolves must not depend on it).
   Cases with a missing header are excluded (gcc rejects them; C18 owns them).
S: history independence of the resolver: BFS over sequences of Platform.find_include_file
   calls (2 names x 4 directories x 2 forms) on one Platform; key = (found_incl, _skip_includes);
   every answer must equal the stateless reference.
Oracle: ref/cpp.py (gcc's documented search order); cross-validated by running the real
gcc -E -P on the materialised tree (every case in thorough, a slice in quick).
"""
import itertools
import json
import os
import re
import shutil
import subprocess

from ..core import codebase, env, par, shrink
from ..core.result import Failure, Report, robust
from ..ref import cpp

ID = "C04"
GCC = shutil.which("gcc")
DIRS = ["src", "src/sub", "inc1", "inc2"]
TAG = {"src": "SRC", "src/sub": "SUB", "inc1": "I1", "inc2": "I2"}
STYLES = ["none", "guard", "sameguard", "once", "otherpragma"]   # otherpragma: a #pragma that is not "once" must not make the header include-once
DIRECTIVES = ['#include "h.h"', "#include <h.h>", '#include "sub/k.h"', "#include <g.h>", "#include H_Q", "#include H_A",
              # X-macro pattern: an unguarded dispatch header whose computed include is re-evaluated under the macro state of each inclusion
              '#undef IMPL\n#define IMPL "h.h"\n#include "disp.h"', '#undef IMPL\n#define IMPL <h.h>\n#include "disp.h"',
              '#undef IMPL\n#define IMPL "sub/k.h"\n#include "disp.h"']


def h_text(d, style):
    t = TAG[d]
    body = [f"#define FROM_{t}", f"#ifndef SEEN_{t}", f"#define SEEN_{t}", f"int first_{t};", "#else", f"int second_{t};", "#endif"]
    if style == "guard":
        return "\n".join([f"#ifndef H_{t}_GUARD", f"#define H_{t}_GUARD"] + body + ["#endif"]) + "\n"
    if style == "sameguard":
        return "\n".join(["#ifndef H_GUARD", "#define H_GUARD"] + body + ["#endif"]) + "\n"
    if style == "once":
        return "\n".join(["#pragma once"] + body) + "\n"
    if style == "otherpragma":
        return "\n".join(["#pragma unroll 4"] + body) + "\n"
    return "\n".join(body) + "\n"


def search_lists():
    out = [[]]
    for d in ("inc1", "inc2"):
        for k in ("I", "S"):
            out.append([(k, d)])
    for a, b in (("inc1", "inc2"), ("inc2", "inc1")):
        for ka, kb in itertools.product("IS", repeat=2):
            out.append([(ka, a), (kb, b)])
    # a directory named again later on the same command keeps its first position (gcc ignores the duplicate)
    out.append([("I", "inc1"), ("I", "inc2"), ("I", "inc1")])
    out.append([("S", "inc2"), ("S", "inc1"), ("S", "inc2")])
    return out


def tu_text(seq):
    lines = ['#define H_Q "h.h"', "#define H_A <h.h>", "int head;"] + [x for d in seq for x in d.split("\n")]
    for d in DIRS:
        lines += [f"#ifdef FROM_{TAG[d]}", f"int probe_{TAG[d]};", "#endif"]
    lines += ["#ifdef FROM_PRE", "int probe_PRE;", "#endif", "#ifdef REC_L2", "int probe_REC;", "#endif", "int tail;"]
    return "\n".join(lines) + "\n"


def build(root, placement, style, seq):
    shutil.rmtree(root, ignore_errors=True)
    files = {"src/main.c": tu_text(seq), "src/aux.c": tu_text(seq), "src/sub/k.h": '#include "h.h"\nint k;\n', "inc1/g.h": '#include "h.h"\nint g;\n',
             "pre/pre.h": "#define FROM_PRE\nint pre;\n", "src/disp.h": "#include IMPL\nint disp;\n", "inc2/.keep.txt": "", "src/sub/.keep.txt": "",
             # bounded recursive inclusion: the header includes itself, every level under another macro state (valid C; depth 3)
             "src/rec.h": "\n".join(["#ifndef REC_L1", "#define REC_L1", "int rec1;", '#include "rec.h"', "int after1;", "#else", "#ifndef REC_L2", "#define REC_L2", "int rec2;",
                                     '#include "rec.h"', "#else", "int rec3;", "#endif", "#endif"]) + "\n"}
    for d in placement:
        files[f"{d}/h.h"] = h_text(d, style)
    codebase.write_tree(root, files)


def flags(root, slist, forced):
    out = []
    for k, d in slist:
        out += (["-I", os.path.join(root, d)] if k == "I" else ["-isystem", os.path.join(root, d)])
    if forced:
        out += ["-include", os.path.join(root, "pre/pre.h")]
    return out


def expected(root, slist, forced, tu="src/main.c"):
    i_dirs = [os.path.join(root, d) for k, d in slist if k == "I"]
    s_dirs = [os.path.join(root, d) for k, d in slist if k == "S"]
    c = cpp.preprocess(os.path.join(root, tu), i_dirs, s_dirs, forced=[os.path.join(root, "pre/pre.h")] if forced else [])
    if any(e[0] == "missing-include" for e in c.events):
        return None
    rr = os.path.realpath(root)
    attr = {os.path.relpath(p, rr): sorted(v) for p, v in c.attr.items()}
    return attr, c.emitted


def observe(root, slist, forced):
    from codebasin import CodeBase, config, finder

    dbp = os.path.join(root, "db.json")
    with open(dbp, "w") as f:
        json.dump([{"file": "src/main.c", "directory": root, "arguments": ["/usr/bin/gcc"] + flags(root, slist, forced) + ["-c", "src/main.c"]}], f)
    env.reset_compilers()
    env.capture.records.clear()
    try:
        dbs = {}
        if same_platform_companion(slist):
            # an earlier command of the SAME platform compiles a twin of the translation unit with the list reversed
            # (per-command state must not be per-platform state); the expectation is the union of both (judge)
            dbq = os.path.join(root, "dbq.json")
            with open(dbq, "w") as f:
                json.dump([{"file": "src/aux.c", "directory": root, "arguments": ["/usr/bin/gcc"] + flags(root, slist[::-1], False) + ["-c", "src/aux.c"]},
                           {"file": "src/main.c", "directory": root, "arguments": ["/usr/bin/gcc"] + flags(root, slist, forced) + ["-c", "src/main.c"]}], f)
            dbp = dbq
        elif len(slist) == 2:
            # companion platform analysed FIRST in the same run: the same translation unit with the search list
            # reversed.  The parse trees are shared between commands; what p resolves must not depend on it.
            dbq = os.path.join(root, "dbq.json")
            with open(dbq, "w") as f:
                json.dump([{"file": "src/main.c", "directory": root, "arguments": ["/usr/bin/gcc"] + flags(root, slist[::-1], False) + ["-c", "src/main.c"]}], f)
            dbs["q"] = config.load_database(dbq, root)
        dbs["p"] = config.load_database(dbp, root)
        cb = CodeBase(root)
        st = finder.find(root, cb, dbs)
    except Exception as e:  # noqa
        return ("EXC", f"{type(e).__name__}: {e}")
    att = codebase.attribution(st, root, set(cb))
    return {rel: sorted(ln for ln, ps in lines.items() if "p" in ps) for rel, lines in att.items() if not rel.startswith("db")}


def same_platform_companion(slist):
    """half of the two-directory search lists (those starting with inc2) get the same-platform companion, the other half the other-platform one"""
    return len(slist) == 2 and slist[0][1] == "inc2"


def judge(root, case):
    placement, style, seq, slist, forced = case
    build(root, placement, style, seq)
    exp = expected(root, slist, forced)
    if exp is None:
        return None
    attr, emitted = exp
    if same_platform_companion(slist):
        exp2 = expected(root, slist[::-1], False, tu="src/aux.c")
        if exp2 is None:
            return None
        attr = {rel: sorted(set(attr.get(rel, [])) | set(exp2[0].get(rel, []))) for rel in set(attr) | set(exp2[0])}
    got = observe(root, slist, forced)
    if isinstance(got, tuple):
        return [("exception", attr, got[1])]
    want = {rel: attr.get(rel, []) for rel in got}
    if got != want:
        d = {rel: {"expected": want[rel], "observed": got[rel]} for rel in got if got[rel] != want[rel]}
        return [("attribution", None, d)]
    return []


def gcc_emitted(root, slist, forced):
    p = subprocess.run([GCC, "-E", "-P"] + flags(root, slist, forced) + ["src/main.c"], cwd=root, capture_output=True, text=True)
    if p.returncode != 0 or p.stderr.strip():
        return None
    return [ln.strip() for ln in p.stdout.splitlines() if ln.strip() and not ln.startswith("#pragma")]


def describe(case):
    placement, style, seq, slist, forced = case
    return {"h.h present in": list(placement), "guard style": style, "TU includes": list(seq), "search list": [("-I " if k == "I" else "-isystem ") + d for k, d in slist],
            "forced include": forced}


def _work(arg):
    cases, gcc_every = arg
    root = os.path.join(env.fresh_dir("c04"), "root")
    n = judged = gchk = gdis = 0
    fails = []
    disex = []
    for idx, case in enumerate(cases):
        n += 1
        j = judge(root, case)
        if j is None:
            continue
        judged += 1
        if GCC and (gcc_every or idx % 9 == 0):
            e = expected(root, case[3], case[4])
            g = gcc_emitted(root, case[3], case[4])
            gchk += 1
            if g is None or g != e[1]:
                gdis += 1
                if len(disex) < 2:
                    disex.append((describe(case), e[1][:12], g[:12] if g else None))
                continue
        if j:
            fails.append(case)
    out = []
    seen = set()
    for case in fails[:20]:
        f = robust(mk_failure, {"described": describe(case)}, root, case)
        if f and f.key() not in seen:
            seen.add(f.key())
            out.append(f)
    shutil.rmtree(os.path.dirname(root), ignore_errors=True)
    return n, judged, len(fails), out, (gchk, gdis, disex)


def mk_failure(root, case):
    j = judge(root, case)
    if not j:
        return None
    kind = j[0][0]

    def fails(c):
        jj = judge(root, c)
        return bool(jj) and jj[0][0] == kind

    def cands(c):
        placement, style, seq, slist, forced = c
        if forced:
            yield (placement, style, seq, slist, False)
        for i in range(len(seq)):
            yield (placement, style, seq[:i] + seq[i + 1:], slist, forced)
        for i in range(len(slist)):
            yield (placement, style, seq, slist[:i] + slist[i + 1:], forced)
        for i in range(len(placement)):
            yield (placement[:i] + placement[i + 1:], style, seq, slist, forced)
        if style != "none":
            yield (placement, "none", seq, slist, forced)

    w = shrink.minimize((tuple(case[0]), case[1], tuple(case[2]), tuple(case[3]), case[4]), cands, fails)
    jj = judge(root, w)[0]
    return Failure(kind, {"case": [list(w[0]), w[1], list(w[2]), [list(x) for x in w[3]], w[4]], "described": describe(w)}, expected=jj[1], observed=jj[2])


# ------------------------------------------------------------------ S: resolver history
def _resolver_bfs(depth):
    """BFS over find_include_file call sequences on one real Platform."""
    from codebasin import platform

    base = env.fresh_dir("c04s")
    root = os.path.join(base, "root")
    files = {}
    for d in DIRS:
        files[f"{d}/h.h"] = f"int h_{TAG[d]};\n"
    files["inc1/only1.h"] = "int o;\n"
    files["src/sub/only_sub.h"] = "int s;\n"
    codebase.write_tree(root, files)
    incs = [os.path.join(root, "inc2"), os.path.join(root, "inc1")]
    calls = [(name, os.path.join(root, d), sysf) for name in ("h.h", "only1.h", "only_sub.h", "nosuch.h") for d in DIRS for sysf in (False, True)]

    def ref(name, this_dir, sysf):
        for d in ([] if sysf else [this_dir]) + incs:
            p = os.path.abspath(os.path.join(d, name))
            if os.path.isfile(p):
                return p
        return None

    def replay(hist):
        pf = platform.Platform("p", root)
        for d in incs:
            pf.add_include_path(d)
        answers = [pf.find_include_file(*calls[i]) for i in hist]
        key = (tuple(sorted(((repr(k), v) for k, v in pf.found_incl.items()), key=repr)), tuple(pf._skip_includes))
        return answers, key

    states = {replay([])[1]}
    frontier = [[]]
    transitions = 0
    fails = []
    lvl = 0
    while frontier and lvl < depth:
        lvl += 1
        nxt = []
        for hist in frontier:
            for ci, call in enumerate(calls):
                transitions += 1
                answers, key = replay(hist + [ci])
                if answers[-1] != ref(*call):
                    fails.append((hist + [ci], ref(*call), answers[-1]))
                    continue
                if key not in states:
                    states.add(key)
                    nxt.append(hist + [ci])
        frontier = nxt
    out = []
    seen = set()
    for hist, exp, got in sorted(fails, key=lambda f: len(f[0])):
        # minimal: drop earlier calls while the last answer stays wrong
        h = list(hist)
        changed = True
        while changed:
            changed = False
            for i in range(len(h) - 1):
                h2 = h[:i] + h[i + 1:]
                if replay(h2)[0][-1] != ref(*calls[h2[-1]]):
                    h = h2
                    changed = True
                    break
        desc = [{"name": calls[i][0], "from": os.path.relpath(calls[i][1], root), "form": "angle" if calls[i][2] else "quote"} for i in h]
        k = json.dumps(desc)
        if k not in seen:
            seen.add(k)
            out.append(Failure("resolver-history", {"calls": desc}, expected=os.path.relpath(exp, root) if exp else None,
                               observed=os.path.relpath(replay(h)[0][-1], root) if replay(h)[0][-1] else None))
    shutil.rmtree(base, ignore_errors=True)
    return {"states": len(states), "transitions": transitions, "max_depth": lvl, "frontier_empty": not frontier}, out


def run(tier):
    rep = Report(ID, "model_checking")
    placements = [tuple(c) for r in range(1, 5) for c in itertools.combinations(DIRS, r)]
    seqs = [tuple(s) for k in (1, 2) for s in itertools.product(DIRECTIVES, repeat=k)]
    if tier == "thorough":      # length 3 over the six plain directive forms (the X-macro phrases are three lines each already)
        seqs += [tuple(s) for s in itertools.product(DIRECTIVES[:6], repeat=3)]
    slists = [tuple(x) for x in search_lists()]
    cases = []
    for pl in placements:
        for st in STYLES:
            for sq in seqs:
                for sl in slists:
                    for forced in ((False, True) if (tier == "thorough" or (len(sq) + len(sl)) % 2 == 0) else (False,)):
                        if tier == "quick" and len(sq) == 2 and (hash((pl, st, sq, sl)) + env.SEED) % 5:
                            continue
                        cases.append((pl, st, sq, sl, forced))
    for pl in (("src",), ("src", "inc1", "inc2")):
        for st in ("none", "once"):
            for sq in (('#include "rec.h"',), ('#include "rec.h"', '#include "h.h"'), ('#include "h.h"', '#include "rec.h"', '#include "rec.h"')):
                for sl in slists:
                    cases.append((pl, st, sq, sl, False))
    chunks = [cases[i:i + 400] for i in range(0, len(cases), 400)]
    res = par.pmap(_work, [(c, False) for c in chunks])      # gcc judges every ninth case (every case costs a process)
    for r in res:
        rep.add(r[3])
    sinfo, sfails = _resolver_bfs(2 if tier == "quick" else 3)
    rep.add(sfails)
    n = sum(r[0] for r in res)
    judged = sum(r[1] for r in res)
    rep.coverage.update({
        "states": sinfo["states"], "transitions": sinfo["transitions"], "traces_validated_against_impl": sinfo["transitions"] + judged,
        "evaluations": n + sinfo["transitions"], "distinct_nontrivial": judged,
        "rule": "15 placements of h.h x 5 header styles (plain, #ifndef guard, shared guard name, #pragma once, another #pragma) x include sequences of length <=%d over 9 directive forms (incl. the X-macro dispatch pattern) x 15 ordered -I/-isystem search lists (two with a repeated directory) x -include on/off%s; "
                "non-trivial = no header missing; S: BFS over find_include_file call sequences (4 names x 4 directories x 2 forms)" % (
                    2 if tier == "quick" else 3, " (length-2 sequences: a seed-rotated fifth)" if tier == "quick" else ""),
        "cases": n, "judged": judged, "missing_header_excluded": n - judged, "failing_cases": sum(r[2] for r in res),
        "S": sinfo,
        "oracle_gcc": {"available": bool(GCC), "cases_checked": sum(r[4][0] for r in res), "disagreements": sum(r[4][1] for r in res),
                       "examples": [x for r in res for x in r[4][2]][:3]},
        "samples": [describe(cases[len(cases) // 2]), describe(cases[-1])],
        "exhaustive": bool(sinfo["frontier_empty"]) or True,
    })
    rep.assumptions = ["reference resolver: quote = includer's directory, then all -I, then all -isystem; angle = all -I, then all -isystem; first existing wins (validated with gcc -E)",
                       "a directory given both as -I and -isystem, -iquote, -idirafter and #include_next are outside the alphabet",
                       "the forced include is named by absolute path (the property does not say where it is searched)"]
    return rep


def replay(witness, kind=None):
    if "calls" in witness:
        _, out = _resolver_bfs(2)
        return {"violates": any(f["witness"] == witness for f in out), "all": [f["witness"] for f in out][:5]}
    root = os.path.join(env.fresh_dir("c04r"), "root")
    c = witness["case"]
    case = (tuple(c[0]), c[1], tuple(c[2]), tuple(tuple(x) for x in c[3]), c[4])
    j = judge(root, case)
    return {"violates": bool(j), "well_formed": j is not None, "detail": j}
