"""C10 - excluding files removes their lines from the counts and changes nothing else.

E: code bases in which a header (inside the root, or outside it and reached with -I) defines
macros that other files test and one compiled file includes another; exclude lists = for every
subset of the files, pattern lists matching exactly that subset (anchored names, bare names,
extension + negation, directory), each confirmed with git check-ignore.  Every case is analysed
with and without the exclusion.  Oracle (differential): setmap(with) = setmap(without) minus the
matched files; the attribution of every remaining line is unchanged; `-x P` on the command line
of codebasin / cbi-tree / cbi-cov == the same patterns in the analysis file.
"""
import itertools
import json
import os
import shutil
import subprocess

from ..core import cli, codebase, env, par
from ..core.result import Failure, Report

ID = "C10"
GIT = shutil.which("git")

SRC = {
    "main.c": '#include "cfg.h"\n#include "part.c"\n#ifdef FEATURE\nint feat;\n#endif\nint m;\n',
    "util.c": '#include "cfg.h"\n#if LEVEL > 1\nint lvl;\n#else\nint nolvl;\n#endif\nint u;\n#ifdef EXTRA\nint ex;\n#endif\n',
    "part.c": "int part;\n#ifdef FEATURE\nint pf;\n#endif\n",
    "sub/x.cpp": '#include "cfg.h"\n#ifdef FEATURE\nint xf;\n#endif\nint x;\n',
    "sub/y.h": "int y;\n",
    # two directories of the same name at different depths: `/gen/` names the first one only, `gen/` both
    "gen/g.c": "int g;\n", "sub/gen/h.c": "int h;\n",
    # gets the macro header through -include only (no #include line)
    "fi.c": "#ifdef FEATURE2\nint fif;\n#else\nint nofif;\n#endif\nint fi;\n",
}
CFG = "#define FEATURE\n#define LEVEL 2\nint cfgline;\n"
CFG2 = "#define FEATURE2\nint cfg2line;\n"       # reached through -include only, by one command only
VARIANTS = ["cfg-inside", "cfg-outside", "cfg-inside-angle", "cfg-outside-angle"]   # -angle: the header is included as <cfg.h>


def build(base, variant):
    root = os.path.join(base, "root")
    os.makedirs(root)
    files = dict(SRC)
    if variant.endswith("-angle"):
        files = {k: v.replace('"cfg.h"', "<cfg.h>") for k, v in files.items()}
    if variant.startswith("cfg-inside"):
        files["cfg.h"] = CFG
        files["cfg2.h"] = CFG2
        inc = ["-I", root]
    else:
        os.makedirs(os.path.join(base, "ext"))
        with open(os.path.join(base, "ext", "cfg.h"), "w") as f:
            f.write(CFG)
        with open(os.path.join(base, "ext", "cfg2.h"), "w") as f:
            f.write(CFG2)
        inc = ["-I", os.path.join(base, "ext")]
    codebase.write_tree(root, files)
    cfgpath = os.path.join(inc[1], "cfg2.h")
    plats = {
        "p1": [{"file": "main.c", "args": inc}, {"file": "util.c", "args": inc}, {"file": "sub/x.cpp", "args": inc}, {"file": "fi.c", "args": ["-include", cfgpath]}],
        "p2": [{"file": "util.c", "args": inc + ["-DEXTRA"]}],
    }
    return root, sorted(files), plats


def renderings(files, subset):
    """Candidate pattern lists meant to match exactly `subset` (confirmed later with git)."""
    S = sorted(subset)
    out = [("anchored", ["/" + f for f in S])]
    out.append(("bare", [os.path.basename(f) for f in S]))
    # extension + negation (top-level files only)
    top = [f for f in files if "/" not in f]
    exts = sorted({os.path.splitext(f)[1] for f in S if "/" not in f})
    if S and all("/" not in f for f in S) and exts:
        # anchored to the top level: `*.c` alone would also match the .c files of the sub-directories
        pats = ["/*" + e for e in exts] + ["!/" + f for f in top if os.path.splitext(f)[1] in exts and f not in S]
        out.append(("ext+negation", pats))
    if set(S) == {f for f in files if f.startswith("sub/")} and S:
        out.append(("directory", ["sub/"]))
    if S == ["gen/g.c"]:
        out += [("anchored-directory", ["/gen/"]), ("anchored-directory-name", ["/gen"])]
    if S == ["gen/g.c", "sub/gen/h.c"]:
        out += [("directory-at-any-depth", ["gen/"])]
    return out


def git_matches(base, files, pats):
    repo = os.path.join(base, "g")
    shutil.rmtree(repo, ignore_errors=True)
    os.makedirs(repo)
    subprocess.run([GIT, "init", "-q", repo], check=True, capture_output=True)
    for f in files:
        p = os.path.join(repo, f)
        os.makedirs(os.path.dirname(p), exist_ok=True)
        open(p, "w").close()
    with open(os.path.join(repo, ".gitignore"), "w") as fh:
        fh.write("".join(x + "\n" for x in pats))
    r = subprocess.run([GIT, "-C", repo, "check-ignore", "--no-index", "--stdin"], input="\n".join(files) + "\n", capture_output=True, text=True)
    return set(r.stdout.split("\n")) - {""}


def analyse(root, plats, excludes):
    from codebasin import CodeBase, finder

    cfg = codebase.configuration(root, plats)
    cb = CodeBase(root, exclude_patterns=list(excludes))
    st = finder.find(root, cb, cfg)
    members = set(cb)
    att = codebase.attribution(st, root, members)
    return att, dict(st.get_setmap(cb))


def smap(att):
    sm = {}
    for rel, lines in att.items():
        for ln, ps in lines.items():
            sm[ps] = sm.get(ps, 0) + 1
    return sm


def _work(arg):
    variant, subsets, with_cli = arg
    base = env.fresh_dir("c10")
    root, files, plats = build(base, variant)
    codebase.write_analysis(root, plats)
    out = []
    n = 0
    try:
        att0, sm0 = analyse(root, plats, [])
    except Exception as e:  # noqa
        return 1, [Failure("exception", {"variant": variant, "exclude": []}, observed=f"{type(e).__name__}: {e}")], 0
    # outside header never contributes; its macros do
    if variant.startswith("cfg-outside"):
        if any("cfg.h" in rel for rel in att0):
            out.append(Failure("outside-file-counted", {"variant": variant}, expected="cfg.h outside the root contributes no lines", observed=sorted(att0)))
        if att0.get("fi.c", {}).get(2) != frozenset({"p1"}):
            out.append(Failure("outside-macros-lost", {"variant": variant}, expected="line 2 of fi.c (guarded by FEATURE2 from the outside header named by -include) used by p1", observed=str(att0.get("fi.c"))))
        if att0.get("main.c", {}).get(4) != frozenset({"p1"}):
            out.append(Failure("outside-macros-lost", {"variant": variant}, expected="line 4 of main.c (guarded by FEATURE from the outside header) used by p1", observed=str(att0.get("main.c"))))
    skipped = 0
    # one analysis serves any exclusion list: the state of the unexcluded run, asked for the counts of narrower code bases
    from codebasin import CodeBase, finder
    cfg0 = codebase.configuration(root, plats)
    st0 = finder.find(root, CodeBase(root), cfg0)
    for S in subsets:
        for rname, pats in renderings(files, S):
            if git_matches(base, files, pats) != set(S):
                skipped += 1
                continue
            n += 1
            w = {"variant": variant, "excluded": sorted(S), "rendering": rname, "patterns": pats}
            try:
                att1, sm1 = analyse(root, plats, pats)
            except Exception as e:  # noqa
                out.append(Failure("exception", w, observed=f"{type(e).__name__}: {e}"))
                continue
            exp_att = {rel: lines for rel, lines in att0.items() if rel not in S}
            if att1 != exp_att:
                d = [(rel, ln, sorted(exp_att.get(rel, {}).get(ln, ["<absent>"])), sorted(att1.get(rel, {}).get(ln, ["<absent>"])))
                     for rel in sorted(set(exp_att) | set(att1)) for ln in sorted(set(exp_att.get(rel, {})) | set(att1.get(rel, {})))
                     if exp_att.get(rel, {}).get(ln) != att1.get(rel, {}).get(ln)]
                out.append(Failure("attribution-changed", w, expected="remaining files keep their per-line attribution; excluded files vanish", observed=d[:8]))
            exp_sm = smap(exp_att)
            try:
                sm_same_state = dict(st0.get_setmap(CodeBase(root, exclude_patterns=list(pats))))
            except Exception as e:  # noqa
                sm_same_state = {"EXC": str(e)}
            if {k: v for k, v in sm_same_state.items() if v} != {k: v for k, v in exp_sm.items() if v}:
                out.append(Failure("setmap-same-state", w, expected=sorted(([sorted(k), v] for k, v in exp_sm.items()), key=str),
                                   observed=sorted(([sorted(k) if not isinstance(k, str) else k, v] for k, v in sm_same_state.items()), key=str),
                                   note="get_setmap of the state of the unexcluded analysis, asked with this exclusion list after other lists"))
            if {k: v for k, v in sm1.items() if v} != {k: v for k, v in exp_sm.items() if v}:
                out.append(Failure("setmap", w, expected=sorted(([sorted(k), v] for k, v in exp_sm.items()), key=str), observed=sorted(([sorted(k), v] for k, v in sm1.items()), key=str)))
            # order-sensitive lists (a negation after the pattern it re-includes from) always go through the front ends
            if (with_cli or rname == "ext+negation") and rname in ("anchored", "ext+negation", "directory"):
                n += 1
                bad = cli_equiv(root, plats, pats)
                for b in bad:
                    out.append(Failure("x-vs-analysis-file", dict(w, tool=b[0]), expected=b[1], observed=b[2]))
    shutil.rmtree(base, ignore_errors=True)
    return n, out, skipped


def _cross(suffix):
    """A header outside the root and the same header inside the root but excluded are the same thing to every other file."""
    out = []
    atts = {}
    for v in ("cfg-inside" + suffix, "cfg-outside" + suffix):
        base = env.fresh_dir("c10x")
        root, files, plats = build(base, v)
        codebase.write_analysis(root, plats)
        try:
            atts[v], _ = analyse(root, plats, ["/cfg.h", "/cfg2.h"] if v.startswith("cfg-inside") else [])
        except Exception as e:  # noqa
            out.append(Failure("exception", {"variant": v, "exclude": ["/cfg.h"]}, observed=f"{type(e).__name__}: {e}"))
        shutil.rmtree(base, ignore_errors=True)
    if len(atts) == 2:
        a, b = atts["cfg-inside" + suffix], atts["cfg-outside" + suffix]
        if a != b:
            d = [(rel, ln, sorted(a.get(rel, {}).get(ln, ["<absent>"])), sorted(b.get(rel, {}).get(ln, ["<absent>"])))
                 for rel in sorted(set(a) | set(b)) for ln in sorted(set(a.get(rel, {})) | set(b.get(rel, {}))) if a.get(rel, {}).get(ln) != b.get(rel, {}).get(ln)]
            out.append(Failure("outside-vs-excluded", {"variant": "cfg-inside%s with /cfg.h excluded vs cfg-outside%s" % (suffix, suffix)},
                               expected="identical per-line attribution of every other file", observed=d[:8]))
    return 1, out, 0


def cli_equiv(root, plats, pats):
    """`-x P...` on the command line == exclude=[P...] in the analysis file, for the three front ends."""
    bad = []
    codebase.write_analysis(root, plats, name="plain.toml")
    codebase.write_analysis(root, plats, exclude=pats, name="excl.toml")
    xs = [a for p in pats for a in ("-x", p)]
    a = cli.run("codebasin", xs + ["-R", "summary", "plain.toml"], root)
    b = cli.run("codebasin", ["-R", "summary", "excl.toml"], root)
    if a["rc"] != 0 or b["rc"] != 0 or _body(a["out"]) != _body(b["out"]):
        bad.append(("codebasin", _body(b["out"])[-400:], _body(a["out"])[-400:] + str(a["rc"])))
    # -x together with a list in the analysis file: the lists add up (also when the file's list is empty)
    codebase.write_analysis(root, plats, exclude=[], name="empty.toml")
    codebase.write_analysis(root, plats, exclude=pats[1:], name="rest.toml")
    for tag, argv in (("-x with an empty file list", xs + ["-R", "summary", "empty.toml"]), ("-x for the first pattern, the rest in the file", ["-x", pats[0], "-R", "summary", "rest.toml"] if pats else None)):
        if argv is None:
            continue
        c = cli.run("codebasin", argv, root)
        if c["rc"] != 0 or _body(c["out"]) != _body(b["out"]):
            bad.append(("codebasin: " + tag, _body(b["out"])[-400:], _body(c["out"])[-400:] + str(c["rc"])))
    a = cli.run("tree", xs + ["plain.toml"], root)
    b = cli.run("tree", ["excl.toml"], root)
    if a["rc"] != 0 or b["rc"] != 0 or a["out"] != b["out"]:
        bad.append(("cbi-tree", b["out"][-400:], a["out"][-400:] + str(a["rc"])))
    # cbi-cov has only -x (no analysis file): compare with the in-process result of the same exclusion
    r = cli.run("cov", ["compute", "-S", root] + xs + ["p1.json", "-o", os.path.join(root, "cv.json")], root)
    if r["rc"] != 0:
        bad.append(("cbi-cov", "exit 0", (r["rc"], r["err"][-200:])))
    else:
        cov = json.load(open(os.path.join(root, "cv.json")))
        os.unlink(os.path.join(root, "cv.json"))
        att, _ = analyse(root, {"p1": plats["p1"]}, pats)
        want = {rel: (sorted(ln for ln, ps in lines.items() if ps), sorted(ln for ln, ps in lines.items() if not ps)) for rel, lines in att.items()}
        got = {e["file"]: (sorted(e["used_lines"]), sorted(e["unused_lines"])) for e in cov}
        if want != got:
            bad.append(("cbi-cov", want, got))
    return bad


def _body(out):
    return "\n".join(ln for ln in out.splitlines() if not ln.startswith("Log file created"))


def run(tier):
    rep = Report(ID, "exploration")
    if not GIT:
        raise SystemExit("git is required to confirm the pattern renderings")
    jobs = []
    for v in VARIANTS:
        files = sorted([f for f in SRC if "gen/" not in f] + (["cfg.h", "cfg2.h"] if v.startswith("cfg-inside") else []))
        subs = [list(c) for r in range(0, len(files) + 1) for c in itertools.combinations(files, r)]
        subs += [["gen/g.c"], ["gen/g.c", "sub/gen/h.c"], ["gen/g.c", "main.c"]]      # the two same-named directories are not part of the subset product
        for i in range(0, len(subs), 4):
            chunk = subs[i:i + 4]
            with_cli = tier == "thorough" or ((i // 4 + env.SEED) % 3 == 0)
            jobs.append((v, chunk, with_cli))
    res = par.pmap(_work, jobs) + [_cross(""), _cross("-angle")]
    for r in res:
        rep.add(r[1])
    n = sum(r[0] for r in res)
    rep.coverage.update({
        "evaluations": n, "distinct_nontrivial": n,
        "rule": "4 code-base variants (macro header inside / outside the root, included in quote / angle form) x every subset of the files x up to 4 pattern renderings that git confirms to match "
                "exactly the subset; each analysed with and without the exclusion in-process; -x vs analysis-file equivalence through the three front ends for %s; header outside the root == header inside and excluded" % (
                    "every case" if tier == "thorough" else "a seed-rotated third of the cases"),
        "cases": n, "renderings_rejected_by_git": sum(r[2] for r in res), "failing_cases": sum(len(r[1]) for r in res),
        "samples": [{"variant": "cfg-outside", "excluded": ["part.c", "util.c"], "patterns": ["/part.c", "/util.c"]}],
        "exhaustive": True,
    })
    rep.assumptions = ["the differential oracle compares the implementation with itself (with / without exclusion); membership itself is C09's",
                       "negation renderings avoid the recorded pathspec finding (no negation below an excluded directory)"]
    return rep


def replay(witness, kind=None):
    base = env.fresh_dir("c10r")
    root, files, plats = build(base, witness["variant"])
    codebase.write_analysis(root, plats)
    att0, _ = analyse(root, plats, [])
    if "patterns" not in witness:
        return {"violates": None}
    att1, _ = analyse(root, plats, witness["patterns"])
    exp = {rel: lines for rel, lines in att0.items() if rel not in witness["excluded"]}
    return {"violates": att1 != exp}
