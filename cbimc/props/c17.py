"""C17 - Fortran sources: comment / continuation handling and preprocessor conditionals.

S: product-machine BFS on the real fortran_file_source (which feeds fortran_cleaner from
   c_file_source(directives_only=True)): one transition = one physical line (every string over
   SIGMA up to a length bound); state = (fortran_cleaner.state, verify_continue emptiness, inner C
   cleaner state, category so far, has-lines) read from the two live generator frames x the
   reference scanner state (open literal quote, continuation pending).
E: every text over SIGMA + newline up to a length bound through FileParser.parse_file on .f90.
C: the C01 universe re-run on .F90 files ("conditionals select lines exactly as in C files"), once with
   one statement per code line and once with all code lines forming a single &-continued statement,
   and a .f90 TU that includes a .h / .inc header (language inherited).
Oracle: ref/fscan.py (free-form rules) and ref/cond.py (validated against gcc in C01).
"""
import itertools
import json
import os
import sys

from ..core import env, par, shrink
from ..core.result import Failure, Report, robust
from ..ref import cond, fscan
from . import c01

ID = "C17"
SIGMA = ["a", " ", "!", "&", "'", '"', "$", "/", "#"]


class Feeder:
    def __init__(self, lines, introspect):
        self.lines = lines
        self.i = 0
        self.snaps = []
        self.introspect = introspect

    def __iter__(self):
        return self

    def __next__(self):
        if self.introspect:
            self.snaps.append(_snap(sys._getframe(1)))
        if self.i >= len(self.lines):
            raise StopIteration
        ln = self.lines[self.i]
        self.i += 1
        return ln


def _pclass(parts):
    """category() only tells ' ' and '#' from anything else; join() only asks parts[0] == ' '"""
    return tuple(p if p in (" ", "#") else "x" for p in parts)


def _snap(cframe):
    try:
        cl = cframe.f_locals["cleaner"]
        fframe = cframe.f_back
        fl = fframe.f_locals
        fc = fl["cleaner"]
        cur = fl["curr_line"]
        ll = cur.current_logical_line
        return ((tuple(fc.state), bool(fc.verify_continue), tuple(cl.state), ll.category(), bool(cur.lines), _pclass(ll.parts[:2]), min(len(ll.parts), 3), bool(ll.trailing_space)),
                len(cur.lines))
    except Exception:  # noqa
        return None


def impl_run(lines, introspect=False):
    from codebasin.file_source import fortran_file_source

    fd = Feeder(lines, introspect)
    counted, dirs = [], []
    exc = ret = None
    gen = fortran_file_source(fd)
    try:
        while True:
            li = next(gen)
            counted.extend(li.lines)
            if li.category == "CPP_DIRECTIVE":
                dirs.extend(li.lines)
    except StopIteration as s:
        ret = s.value
    except Exception as e:  # noqa
        exc = f"{type(e).__name__}: {e}"
    return {"counted": counted, "dirs": dirs, "ret": ret, "exc": exc, "snaps": fd.snaps}


def split(text):
    out, cur = [], []
    for ch in text:
        cur.append(ch)
        if ch == "\n":
            out.append("".join(cur))
            cur = []
    if cur:
        out.append("".join(cur))
    return out


def judge(text, via="fortran_file_source"):
    """(None,None) ill-formed; (exp,None) ok; (exp,(kind,exp,obs))"""
    r, ill = fscan.scan(text)
    if r is None:
        return None, None
    counted, dirs = r
    if via == "fortran_file_source":
        g = impl_run(split(text))
        if g["exc"]:
            return r, (f"{via}:exception", r, g["exc"])
        got = (sorted(g["counted"]), sorted(g["dirs"]))
        if len(set(g["counted"])) != len(g["counted"]) or got != (counted, dirs) or g["ret"][0] != len(counted):
            return r, (f"{via}:mismatch", [counted, dirs, len(counted)], [g["counted"], g["dirs"], g["ret"][0] if g["ret"] else None])
        return r, None
    from codebasin import file_parser, preprocessor

    path = os.path.join(env.scratch("c17"), f"t{os.getpid()}.f90")
    with open(path, "w") as f:
        f.write(text)
    try:
        tree = file_parser.FileParser(path).parse_file(summarize_only=True)
    except Exception as e:  # noqa
        return r, (f"{via}:exception", r, f"{type(e).__name__}: {e}")
    c, d = [], []
    for n in tree.walk():
        if isinstance(n, preprocessor.DirectiveNode):
            d.extend(n.lines)
            c.extend(n.lines)
        elif isinstance(n, preprocessor.CodeNode):
            c.extend(n.lines)
    if (sorted(c), sorted(d)) != (counted, dirs) or len(c) != len(set(c)) or tree.root.total_sloc != len(counted):
        return r, (f"{via}:mismatch", [counted, dirs, len(counted)], [sorted(c), sorted(d), tree.root.total_sloc])
    return r, None


def mk_failure(text, via):
    _, j = judge(text, via)
    if j is None:
        return None
    kind = j[0]

    def fails(t):
        _, jj = judge(t, via)
        return jj is not None and jj[0] == kind

    w = shrink.minimize(text, shrink.str_moves, fails)
    _, jj = judge(w, via)
    return Failure(kind, {"text": w, "via": via}, expected=json.loads(json.dumps(jj[1])), observed=json.loads(json.dumps(jj[2])), original={"text": text})


# ------------------------------------------------------------------ E
def _e_shard(arg):
    prefix, n, via = arg
    alpha = SIGMA + ["\n"]
    tested = wf = 0
    fails = []
    outcomes = set()
    for k in range(0, n - len(prefix) + 1):
        for tail in itertools.product(alpha, repeat=k):
            text = prefix + "".join(tail)
            tested += 1
            exp, j = judge(text, via)
            if exp is None:
                continue
            wf += 1
            outcomes.add(repr(exp))
            if j is not None:
                fails.append(text)
    return tested, wf, fails, len(outcomes)


def explore_e(n, via, shard_len=2):
    alpha = SIGMA + ["\n"]
    shards = []
    for k in range(shard_len):
        for p in itertools.product(alpha, repeat=k):
            shards.append(("".join(p), k, via))
    for p in itertools.product(alpha, repeat=shard_len):
        shards.append(("".join(p), n, via))
    res = par.pmap(_e_shard, shards)
    return sum(r[0] for r in res), sum(r[1] for r in res), [t for r in res for t in r[2]], sum(r[3] for r in res)


# ------------------------------------------------------------------ S
_alpha = {}


def _lines(maxlen):
    if maxlen not in _alpha:
        _alpha[maxlen] = ["".join(p) for k in range(maxlen + 1) for p in itertools.product(SIGMA, repeat=k)]
    return _alpha[maxlen]


def _expand(arg):
    path, maxlen = arg
    path = list(path)
    base = fscan.FScanner()
    for ln in path:
        base.feed(ln)
    succ = {}
    fails = []
    trans = pruned = eofs = 0
    k = len(path) + 1
    for L in _lines(maxlen):
        ref = fscan.FScanner()
        ref.__dict__.update({k2: (list(v) if isinstance(v, list) else v) for k2, v in base.__dict__.items()})
        try:
            ref.feed(L + "\n")
        except fscan.IllFormed:
            pruned += 1
            succ[L] = "ILL"
            continue
        trans += 1
        r = impl_run(path + [L + "\n"], introspect=True)
        fin = fscan.FScanner()
        fin.__dict__.update({k2: (list(v) if isinstance(v, list) else v) for k2, v in ref.__dict__.items()})
        try:
            counted, dirs = fin.finish()
            closed = True
        except fscan.IllFormed:
            closed = False
        if closed:
            eofs += 1
            if r["exc"] or sorted(r["counted"]) != counted or sorted(r["dirs"]) != dirs:
                succ[L] = "VIOL"
                fails.append("".join(path) + L + "\n")
                continue
        else:
            # not closed: lines already flushed by the implementation must be right so far
            done = [x for x in r["counted"] if x < k and x in ref.counted or x not in ref.counted]
            if any(x not in ref.counted for x in r["counted"] if x < k):
                succ[L] = "VIOL"
                fails.append("".join(path) + L + "\na\n")
                continue
        snap, pending = r["snaps"][k] if len(r["snaps"]) > k and r["snaps"][k] else (None, 0)
        # part of the product state: how many lines the reference has counted that the implementation has neither emitted nor
        # credited to its unfinished statement (0 when they agree) - two histories that differ in it have different futures
        lag = len(ref.counted) - len(set(r["counted"]))      # the run ends with a flush of the unfinished statement: pending lines are in r["counted"]
        succ[L] = (snap, ref.key(), lag)
    return path, succ, fails, trans, pruned, eofs


def explore_s(maxlen, depth_cap=10):
    r0 = impl_run([], introspect=True)
    init = (r0["snaps"][0][0] if r0["snaps"] and r0["snaps"][0] else None, fscan.FScanner().key(), 0)
    states = {init}
    expanded = {}
    reps = {init: 1}
    frontier = [(init, [])]
    transitions = pruned = eofs = conflicts = 0
    failing = []
    samples = []
    depth = 0
    intro = init[0] is not None
    while frontier and depth < depth_cap:
        depth += 1
        res = par.pmap(_expand, [(p, maxlen) for _, p in frontier])
        nxt = []
        for (key, _), (path, succ, fails, t, pr, eo) in zip(frontier, res):
            transitions += t
            pruned += pr
            eofs += eo
            failing.extend(fails)
            if key in expanded:
                if expanded[key] != succ:
                    conflicts += 1
                continue
            expanded[key] = succ
            for L, s in succ.items():
                if s in ("ILL", "VIOL"):
                    continue
                if s[0] is None:
                    intro = False
                h = path + [L + "\n"]
                if s not in states:
                    states.add(s)
                    reps[s] = 1
                    nxt.append((s, h))
                    if len(samples) < 3 and len(h) > 1:
                        samples.append({"history": h, "state": repr(s)})
                elif reps[s] < 3:
                    reps[s] += 1
                    nxt.append((s, h))
        frontier = nxt
    return {"states": len(states), "transitions": transitions, "pruned_illformed": pruned, "eof_checks": eofs, "abstraction_conflicts": conflicts,
            "max_depth": depth, "frontier_empty": not frontier, "introspection": intro, "samples": samples}, failing


# ------------------------------------------------------------------ C: conditionals in Fortran files
def render_continued(program):
    """All code lines form ONE &-continued statement that the directives cut into pieces: a piece must still be
    attributed by the group its physical line lies in, not by where the statement ends."""
    code = [i for i, ev in enumerate(program) if ev[0] == "code"]
    out = []
    for i, ev in enumerate(program):
        if ev[0] != "code":
            out.append(cond.render(ev, i + 1))
        elif i == code[0]:
            out.append(f"      x = {i + 1} + &" if len(code) > 1 else f"      x = {i + 1}")
        elif i == code[-1]:
            out.append(f"      {i + 1}")
        else:
            out.append(f"      {i + 1} + &")
    return out


def _cond_work(progs):
    d = env.fresh_dir("c17c")
    judged = 0
    fails = []
    cont_fails = []
    gjobs = []
    for dirs in progs:
        program = cond.interleave([tuple(x) for x in dirs])
        exps = [c01.expected(program, c[2]) for c in c01.CONFIGS]
        gjobs += [(program, ci, e) for ci, e in enumerate(exps) if e is not None]
        good = [c for c, e in zip(c01.CONFIGS, exps) if e is not None]
        if not good:
            continue
        got = c01.impl_attr(program, good, ".F90", d)
        got2 = c01.impl_attr(program, good, ".F90", d, render=render_continued)
        for ci, (c, e) in enumerate(zip(c01.CONFIGS, exps)):
            if e is None:
                continue
            judged += 2
            if got[c[0]] != e:
                fails.append((program, ci))
            elif got2[c[0]] != e:
                cont_fails.append((program, ci, sorted(e), got2[c[0]] if isinstance(got2[c[0]], tuple) else sorted(got2[c[0]])))
    out = []
    seen = set()
    for program, ci in fails[:10]:
        f = robust(c01.mk_failure, {"lines": c01.lines_of(program, ".F90"), "config": c01.CONFIGS[ci][0]}, program, ci, ".F90")
        if f and f.key() not in seen:
            seen.add(f.key())
            f["kind"] = "fortran-" + f["kind"]
            out.append(f)
    for program, ci, e, g in sorted(cont_fails, key=lambda x: len(x[0]))[:3]:
        out.append(Failure("fortran-continued-statement", {"lines": render_continued(program), "defines": c01.CONFIGS[ci][1], "config": c01.CONFIGS[ci][0]},
                           expected=e, observed=g))
    from ..core import gcc as G
    gst = c01._gcc_validate(gjobs, tool="gfortran") if G.GFORTRAN else (0, 0, [])
    return judged, len(fails) + len(cont_fails), out, gst


def _inherit(_):
    """A .f90 TU including a .h and an .inc header: the headers are scanned with Fortran rules."""
    from codebasin import CodeBase, finder
    from ..core import codebase

    root = env.fresh_dir("c17i")
    files = {"m.f90": '#include "h.h"\n#include "p.inc"\nx = 1 ! c\n', "h.h": "! only a comment\ny = 2 ! trailing\n!$omp parallel\nz = 'a!b' // &\n  'c'\n",
             "p.inc": "#ifdef A\nw = 3\n#else\n! nothing\nv = 4\n#endif\n"}
    codebase.write_tree(root, files)
    cfg = {"p": [{"file": os.path.join(root, "m.f90"), "defines": ["A"], "include_paths": [], "include_files": []}]}
    st = finder.find(root, CodeBase(root), cfg)
    att = codebase.attribution(st, root)
    got = {rel: sorted(ln for ln, ps in lines.items() if ps) for rel, lines in att.items()}
    exp = {"m.f90": [1, 2, 3], "h.h": [2, 3, 4, 5], "p.inc": [1, 2, 3, 6]}
    if got != exp:
        return [Failure("language-not-inherited", {"files": files}, expected=exp, observed=got)]
    return []


def _inherit_outside(_):
    """Headers *outside* the code base (reached through -I) are parsed on first inclusion and must inherit the
    language of the including Fortran file, at every level of a nested chain, whatever their extension.  (For
    headers that are code-base members the pinned tree does not do this - see _inherit, informational.)"""
    from codebasin import CodeBase, finder
    from ..core import codebase

    base = env.fresh_dir("c17o")
    body = "! a comment\ny = 2 ! trailing\n#ifdef GPU\n!$omp target\nz = 'a!b' // &\n  'c'\n#else\n! nothing here\nw = 4\n#endif\n"
    files = {"src/main.F90": '#include "config.h"\nx = 1\n', "include/config.h": '! cfg comment\n#include "decls.fi"\nc = 3 ! t\n', "include/decls.fi": body,
             "src/direct.f90": body}
    codebase.write_tree(base, files)
    root = os.path.join(base, "src")
    out = []
    for defs in ([], ["GPU"]):
        cfg = {"p": [{"file": os.path.join(root, "main.F90"), "defines": defs, "include_paths": [os.path.join(base, "include")], "include_files": []},
                     {"file": os.path.join(root, "direct.f90"), "defines": defs, "include_paths": [], "include_files": []}]}
        try:
            st = finder.find(root, CodeBase(root), cfg)
        except Exception as e:  # noqa
            out.append(Failure("language-not-inherited", {"files": files, "defines": defs}, expected="analysis succeeds", observed=f"{type(e).__name__}: {e}"))
            continue

        def used(path):
            m = st.get_map(path)
            t = st.get_tree(path)
            counted, sel = set(), set()
            for node in t.walk():
                for ln in getattr(node, "lines", None) or []:
                    counted.add(ln)
                    if "p" in m[node]:
                        sel.add(ln)
            return sorted(counted), sorted(sel)

        nested = used(os.path.join(base, "include/decls.fi"))
        direct = used(os.path.join(root, "direct.f90"))
        cfgh = used(os.path.join(base, "include/config.h"))
        if nested != direct or cfgh[0] != [2, 3]:
            out.append(Failure("language-not-inherited", {"files": files, "defines": defs},
                               expected={"decls.fi (counted, selected) as direct.f90": direct, "config.h counted": [2, 3]}, observed={"decls.fi": nested, "config.h counted": cfgh[0]}))
    return out


def _mk(tv):
    return robust(mk_failure, {"text": tv[0], "via": tv[1]}, *tv)


def run(tier):
    rep = Report(ID, "model_checking")
    if tier == "quick":
        s_len, e_len, p_len, dmax = 4, 6, 5, 4
    else:
        s_len, e_len, p_len, dmax = 4, 7, 6, 5
    sinfo, sfail = explore_s(s_len)
    t1, wf1, f1, o1 = explore_e(e_len, "fortran_file_source")
    t2, wf2, f2, o2 = explore_e(p_len, "parse_file")
    pref = "".join((SIGMA + ["\n"])[(env.SEED // (10 ** i)) % 10] for i in range(2))
    ext = _e_shard((pref, e_len + 1, "fortran_file_source"))
    failing = [(t, "fortran_file_source") for t in sfail + f1 + ext[2]] + [(t, "parse_file") for t in f2]
    uniq = sorted(set(failing), key=lambda x: (len(x[0]), x))
    fl = par.pmap(_mk, uniq[:400], chunksize=4)
    rep.add([f for f in fl if f])
    progs = cond.gen_directives(dmax, c01.CONDS_Q, c01.DEFS_Q)
    cres = par.pmap(_cond_work, [progs[i:i + 200] for i in range(0, len(progs), 200)])
    for r in cres:
        rep.add(r[2])
    # informational only (the property does not state language inheritance for included headers): see DESIGN.md Appendix B
    inh = _inherit(None)
    rep.add(_inherit_outside(None))
    cj = sum(r[0] for r in cres)
    rep.coverage.update({
        "states": sinfo["states"], "transitions": sinfo["transitions"], "traces_validated_against_impl": sinfo["transitions"] + sinfo["eof_checks"] + cj,
        "evaluations": sinfo["transitions"] + t1 + t2 + ext[0] + cj, "distinct_nontrivial": wf1 + wf2 + cj,
        "rule": "S: product BFS, one transition = one physical line over %d symbols (len<=%d); E: all texts of length<=%d through fortran_file_source and <=%d through "
                "FileParser.parse_file (.f90); C: all conditional programs with <=%d directives x 10 configurations in .F90 files; non-trivial = well-formed per the reference" % (
                    len(SIGMA), s_len, e_len, p_len, dmax),
        "S": {k: v for k, v in sinfo.items() if k != "samples"},
        "E_fortran_file_source": {"texts": t1, "well_formed": wf1}, "E_parse_file": {"texts": t2, "well_formed": wf2},
        "E_extension": {"prefix": pref, "len": e_len + 1, "texts": ext[0], "well_formed": ext[1]},
        "C_conditionals": {"programs": len(progs), "pairs_judged": cj},
        "oracle_gfortran": {"pairs_checked": sum(r[3][0] for r in cres), "disagreements": sum(r[3][1] for r in cres), "examples": [x for r in cres for x in r[3][2]][:3]},
        "informational_language_inheritance": "holds" if not inh else "a header that is itself a code-base member is scanned with the rules of its own extension, not of the including Fortran file (not part of C17's statement; not a violation)",
        "failing_cases": len(uniq) + sum(r[1] for r in cres),
        "samples": sinfo["samples"] + [{"text": "a = 'x!y' // &\n  & 'z' ! c\n!$omp end\n"}],
        "exhaustive": bool(sinfo["frontier_empty"]),
    })
    rep.assumptions = ["alphabet {a blank ! & ' \" $ / # newline}; backslash-newline splicing inside Fortran text, fixed form, tabs and ';' are outside",
                       "reference = ref/fscan.py (free-form rules of the Fortran standard); conditional selection = ref/cond.py, validated here against `gfortran -cpp -E` on every judged (program, configuration) and against gcc -E in C01"]
    return rep


def replay(witness, kind=None):
    if "text" in witness:
        exp, j = judge(witness["text"], witness["via"])
        return {"violates": j is not None, "well_formed": exp is not None, "detail": j}
    if "program" in witness:
        return c01.replay(witness)
    if "lines" in witness and "defines" in witness:
        from codebasin import CodeBase, finder
        d = env.fresh_dir("c17r")
        path = os.path.join(d, "t.F90")
        with open(path, "w") as f:
            f.write("\n".join(witness["lines"]) + "\n")
        st = finder.find(d, CodeBase(d), {"p": [{"file": path, "defines": witness["defines"], "include_paths": [], "include_files": []}]})
        used = sorted(ln for node, pl in st.get_map(path).items() if "p" in pl for ln in (getattr(node, "lines", None) or []))
        return {"violates": None, "attributed_lines": used}
    return {"violates": bool(_inherit_outside(None))}
