"""C16 - the duplicates report lists exactly the sets of byte-identical files.

E (exhaustive): every assignment of contents (pool of 5: empty, same prefix, differing in the
last byte / in length) to n files in two directories, crossed with structural variants (an
excluded twin, a symlinked twin, a twin with a non-source extension).  Oracle: direct
byte-wise partition of the member files.  The sha512 pre-filter is not subverted.
"""
import contextlib
import io
import itertools
import os
import re
import signal

from ..core import cli, codebase, env, par, shrink
from ..core.result import Failure, Report, robust

ID = "C16"
POOL = ["", "a\n", "a", "a\nb\n", "a\nc\n"]
FILES5 = ["d1/a.c", "d1/b.c", "d2/a.c", "d2/c.h", "e.cpp"]
FILES6 = FILES5 + ["d2/f.cc"]
VARIANTS = ["plain", "excluded-twin", "symlink-twin", "non-source-twin", "symlink-listed-first", "overlapping-directories"]
MTIME = 1_600_000_000   # every file gets the same mtime (cp -p, archive extraction, one clock tick): a shallow comparison cannot tell them apart


class _Timeout(Exception):
    pass


def _alarm(s, f):
    raise _Timeout()


def build(root, files, assign, variant):
    for d in ("d1", "d2"):
        os.makedirs(os.path.join(root, d), exist_ok=True)
    for f, ci in zip(files, assign):
        with open(os.path.join(root, f), "w") as fh:
            fh.write(POOL[ci])
        os.utime(os.path.join(root, f), (MTIME, MTIME))
    for extra in ("d1/link.c", "d1/a.txt", "d0/l.c"):
        p = os.path.join(root, extra)
        if os.path.lexists(p):
            os.unlink(p)
    excludes = []
    if variant == "excluded-twin":
        excludes = ["d2/a.c"]
    elif variant == "symlink-twin":
        os.symlink("a.c", os.path.join(root, "d1/link.c"))
    elif variant == "symlink-listed-first":
        os.makedirs(os.path.join(root, "d0"), exist_ok=True)      # d0/l.c sorts before its target d1/a.c
        os.symlink("../d1/a.c", os.path.join(root, "d0/l.c"))
    elif variant == "non-source-twin":
        with open(os.path.join(root, "d1/a.txt"), "w") as fh:
            fh.write(POOL[assign[0]])
    return excludes


def expected(files, assign, variant):
    members = [(f, POOL[ci]) for f, ci in zip(files, assign) if not (variant == "excluded-twin" and f == "d2/a.c")]
    groups = {}
    for f, c in members:
        groups.setdefault(c, set()).add(f)
    return {frozenset(g) for g in groups.values() if len(g) >= 2}


def observe(root, excludes, extra_dirs=()):
    """(groups from find_duplicates, groups parsed from the printed report) or ('EXC', msg)"""
    from codebasin import CodeBase, report

    signal.signal(signal.SIGALRM, _alarm)
    signal.setitimer(signal.ITIMER_REAL, 10)
    try:
        cb = CodeBase(root, *extra_dirs, exclude_patterns=list(excludes))
        got = report.find_duplicates(cb)
        g1 = [frozenset(os.path.relpath(str(p), root) for p in m) for m in got]
        buf = io.StringIO()
        with contextlib.redirect_stdout(buf):
            report.duplicates(cb, buf)
        text = buf.getvalue()
    except _Timeout:
        return ("EXC", "timeout (no result within 10 s)")
    except Exception as e:  # noqa
        return ("EXC", f"{type(e).__name__}: {e}")
    finally:
        signal.setitimer(signal.ITIMER_REAL, 0)
    g2 = []
    cur = None
    for ln in text.splitlines():
        if re.match(r"Match \d+:", ln):
            cur = set()
            g2.append(cur)
        elif ln.startswith("- ") and cur is not None:
            cur.add(os.path.relpath(ln[2:].strip(), root))
    none_msg = "No duplicates found." in text
    return (g1, [frozenset(g) for g in g2], none_msg)


def judge(root, files, assign, variant):
    excludes = build(root, files, assign, variant)
    exp = expected(files, assign, variant)
    # a code base may list overlapping directories: every file below d1 is then enumerated twice
    got = observe(root, excludes, (os.path.join(root, "d1"),) if variant == "overlapping-directories" else ())
    show = sorted(sorted(g) for g in exp)
    if got[0] == "EXC":
        return [("exception", show, got[1])]
    g1, g2, none_msg = got
    if len(g1) != len(set(g1)) or set(g1) != exp:
        return [("find_duplicates", show, sorted(sorted(g) for g in g1))]
    if len(g2) != len(set(g2)) or set(g2) != exp or (none_msg != (not exp)):
        return [("printed-report", show, {"groups": sorted(sorted(g) for g in g2), "no_duplicates_line": none_msg})]
    return []


def mk_failure(root, files, assign, variant):
    j = judge(root, files, assign, variant)
    if not j:
        return None
    kind = j[0][0]

    def fails(w):
        fs, asg = w
        jj = judge(_clean(root), list(fs), list(asg), variant)
        return bool(jj) and jj[0][0] == kind

    def cands(w):
        fs, asg = w
        for i in range(len(fs)):
            if fs[i] in ("d1/a.c", "d2/a.c") and variant != "plain":
                continue
            yield (fs[:i] + fs[i + 1:], asg[:i] + asg[i + 1:])
        for i, c in enumerate(asg):
            for s in range(c):
                yield (fs, asg[:i] + (s,) + asg[i + 1:])

    fs, asg = shrink.minimize((tuple(files), tuple(assign)), cands, fails)
    jj = judge(_clean(root), list(fs), list(asg), variant)[0]
    return Failure(kind, {"files": {f: POOL[c] for f, c in zip(fs, asg)}, "variant": variant}, expected=jj[1], observed=jj[2])


def _clean(root):
    import shutil

    shutil.rmtree(root, ignore_errors=True)
    os.makedirs(root)
    return root


def _cli_case(arg):
    """The user-facing path: `codebasin -R duplicates analysis.toml` prints the same groups."""
    files, assign, variant = arg
    root = env.fresh_dir("c16c")
    excludes = build(root, files, assign, variant)
    exp = expected(files, assign, variant)
    codebase.write_analysis(root, {"p": [{"file": "d1/a.c", "args": []}]}, exclude=excludes)
    r = cli.run("codebasin", ["-R", "duplicates", "analysis.toml"], root)
    groups, cur = [], None
    for ln in r["out"].splitlines():
        if re.match(r"Match \d+:", ln):
            cur = set()
            groups.append(cur)
        elif ln.startswith("- ") and cur is not None:
            cur.add(os.path.relpath(ln[2:].strip(), root))
    got = {frozenset(g) for g in groups}
    w = {"files": {f: POOL[c] for f, c in zip(files, assign)}, "variant": variant, "through": "codebasin -R duplicates"}
    import shutil
    shutil.rmtree(root, ignore_errors=True)
    if r["rc"] != 0 or got != exp or len(groups) != len(got):
        return [Failure("cli-report", w, expected=sorted(sorted(g) for g in exp), observed={"exit": r["rc"], "groups": sorted(sorted(g) for g in groups), "stdout_tail": r["out"][-300:]})]
    return []


def _work(arg):
    files, lo, hi, variants = arg
    root = env.fresh_dir("c16")
    n = 0
    nontriv = 0
    fails = []
    k = len(files)
    outcomes = set()
    for idx in range(lo, hi):
        x = idx
        assign = []
        for _ in range(k):
            assign.append(x % len(POOL))
            x //= len(POOL)
        for v in variants:
            n += 1
            e = expected(files, assign, v)
            if e:
                nontriv += 1
            outcomes.add(frozenset(e))
            if judge(root, files, assign, v):
                fails.append((tuple(assign), v))
    out = []
    seen = set()
    for assign, v in fails[:40]:
        f = robust(mk_failure, {"files": {fn: POOL[c] for fn, c in zip(files, assign)}, "variant": v}, _clean(root), files, list(assign), v)
        if f and f.key() not in seen:
            seen.add(f.key())
            out.append(f)
    return n, nontriv, len(fails), out, len(outcomes)


def run(tier):
    rep = Report(ID, "exploration")
    files = FILES5 if tier == "quick" else FILES6
    total = len(POOL) ** len(files)
    step = 125 if tier == "quick" else 625
    jobs = [(files, lo, min(total, lo + step), VARIANTS) for lo in range(0, total, step)]
    # seed-selected extension: the 6-file universe restricted to a seed-chosen content for the sixth file (quick only)
    if tier == "quick":
        c6 = env.SEED % len(POOL)
        base = c6 * (len(POOL) ** 5)
        jobs += [(FILES6, base + lo, base + min(3125, lo + 625), ["plain"]) for lo in range(0, 3125, 625)]
    res = par.pmap(_work, jobs)
    for r in res:
        rep.add(r[3])
    # two groups + a singleton, through the command line, for every structural variant
    clis = par.pmap(_cli_case, [(FILES5, (1, 1, 3, 3, 0), v) for v in VARIANTS if v != "overlapping-directories"] + [(FILES5, (1, 2, 3, 4, 0), "plain")])
    for f in clis:
        rep.add(f)
    n = sum(r[0] for r in res)
    rep.coverage.update({
        "evaluations": n, "distinct_nontrivial": sum(r[1] for r in res),
        "rule": "every assignment of %d contents to %d files x %d structural variants; non-trivial = at least one duplicate group expected" % (len(POOL), len(files), len(VARIANTS)),
        "assignments": total, "variants": VARIANTS, "cli_cases": len(clis), "failing_cases": sum(r[2] for r in res),
        "distinct_expected_partitions_per_shard_sum": sum(r[4] for r in res),
        "samples": [{"files": dict(zip(files, ["a\n", "a\n", "a", "", ""] + [""] * (len(files) - 5))), "variant": "symlink-twin",
                     "expected_groups": [["d1/a.c", "d1/b.c"], sorted(f for f, c in zip(files, ["a\n", "a\n", "a", "", ""] + [""] * (len(files) - 5)) if c == "")]}],
        "exhaustive": True,
    })
    rep.assumptions = ["sha512 pre-filter not subverted (no injected collisions)", "order of groups and of paths inside a group is not compared here (C14)"]
    return rep


def replay(witness, kind=None):
    root = env.fresh_dir("c16r")
    files = list(witness["files"])
    assign = [POOL.index(witness["files"][f]) for f in files]
    j = judge(root, files, assign, witness["variant"])
    return {"violates": bool(j), "detail": j}
