"""C18 - nothing is dropped silently: unhonoured input is always reported.

Event model: the reference preprocessor (ref/cpp.py) emits missing-include(file, line, name,
form) each time a reached #include resolves to nothing; an unknown-directive(file, line,
spelling) per textual occurrence (not for #line/#warning/#error, not for the null directive) in
every parsed file; by construction of the input: missing-file per database entry,
unknown-compiler and unknown-arguments per command.
E: a two-platform, multi-TU code base with 14 fault sites (quote / angle includes missing, in
   reached and unreached branches, in a header included by two TUs, in a header included twice by
   one TU, the same missing spelling at two lines, unknown directives reached / unreached / in a
   file nobody compiles, harmless #line/#error/#warning, a database entry for a missing file, an
   unknown compiler, an unknown flag); every subset of <= 3 (quick) / <= 4 (thorough) faults.
S: BFS over include-directive sequences of one TU (missing quote / missing angle / present /
   via a header that itself misses one): state = the platform's include memo after the walk;
   the memo must never suppress a later warning.
Oracle: the set of (category, file, line, name, form) records equals the model's; per item at
least one and at most "number of reach events" records; fully honoured input: no warning; through
the real codebasin CLI the three closing totals equal the numbers of WARNING records in cbi.log.
"""
import itertools
import json
import logging
import os
import re
import shutil

from ..core import cli, codebase, env, par, shrink
from ..core.result import Failure, Report, robust
from ..ref import cpp

ID = "C18"
FAULTS = ["quote-missing", "angle-missing", "unreached-missing", "missing-in-shared-header", "missing-in-header-included-twice", "same-missing-twice",
          "unknown-directive-reached", "unknown-directive-unreached", "harmless-directives", "db-missing-file", "unknown-compiler", "unknown-flag",
          "unknown-directive-in-uncompiled-file", "angle-resolvable-for-one-tu-only", "repeated-db-events", "computed-angle-missing"]


def build(root, faults):
    F = set(faults)
    main = ['#include "h.h"', "int m;"]
    if "quote-missing" in F:
        main.append('#include "missing_q.h"')
    if "angle-missing" in F:
        main.append("#include <missing_a.h>")
    if "computed-angle-missing" in F:      # the operand is a macro that expands to the angle form
        main += ["#define HDR_A <missing_c.h>", "#include HDR_A"]
    if "unreached-missing" in F:
        main += ["#if 0", '#include "never.h"', "#endif"]
    main.append('#include "sub/k.h"')
    main += ["#include <g.h>", "#include <g.h>"]
    if "same-missing-twice" in F:
        main += ['#include "dup.h"', "int between;", '#include "dup.h"']
    if "unknown-directive-reached" in F:
        main.append("#foo bar")
    if "harmless-directives" in F:
        main += ["#line 3", "#warning hi", "#", "#ifdef NEVER", "#error x", "#endif"]
    if "angle-resolvable-for-one-tu-only" in F:
        main.append("#include <only1.h>")
    main += ["#ifdef P2", "int p2;", "#endif", "int tail;"]
    other = ['#include "sub/k.h"', "int o;"] + (["#include <only1.h>"] if "angle-resolvable-for-one-tu-only" in F else [])
    if "unknown-directive-unreached" in F:
        other += ["#ifdef NEVER", "#include_next <x.h>", "#endif"]
    k = ["int k;"] + (['#include "missing_in_k.h"'] if "missing-in-shared-header" in F else [])
    g = ["int g;"] + (["#include <missing_in_g.h>"] if "missing-in-header-included-twice" in F else [])
    files = {"src/main.c": "\n".join(main) + "\n", "src/other.c": "\n".join(other) + "\n", "src/sub/k.h": "\n".join(k) + "\n",
             "inc1/g.h": "\n".join(g) + "\n", "inc1/h.h": "int h;\n", "lib/unused.c": "int un;\n" + ("#frob x\n" if "unknown-directive-in-uncompiled-file" in F else "")}
    shutil.rmtree(root, ignore_errors=True)
    codebase.write_tree(root, files)
    inc = ["-I", os.path.join(root, "inc1")]
    files_extra = {"incx/only1.h": "int only1;\n"}
    codebase.write_tree(root, files_extra)
    incx = ["-I", os.path.join(root, "incx")] if "angle-resolvable-for-one-tu-only" in F else []      # main.c's command only
    p1 = [{"file": "src/main.c", "args": inc + incx + (["-fweird"] if "unknown-flag" in F else [])},
          {"file": "src/other.c", "args": inc, "compiler": "weirdcc" if "unknown-compiler" in F else "/usr/bin/gcc"}]
    if "db-missing-file" in F:
        p1.append({"file": "src/gone.c", "args": inc})
    if "repeated-db-events" in F:
        # one warning per occurrence: a later entry naming the same unknown compiler (through another path), the same
        # unknown flag and the same missing file is warned about again
        p1.append({"file": "src/other.c", "args": inc + ["-DREP", "-fweird"], "compiler": "/opt/bin/weirdcc"})
        p1.append({"file": "src/gone.c", "args": inc})
    p2 = [{"file": "src/main.c", "args": inc + incx + ["-DP2"]}]
    return {"p1": p1, "p2": p2}


def model(root, plats, faults):
    """Multiset of expected events: {event: number of reach events}"""
    ev = {}
    inc = [os.path.join(root, "inc1")]
    parsed = set()
    for p, cmds in plats.items():
        for c in cmds:
            tu = os.path.join(root, c["file"])
            if not os.path.exists(tu):
                continue
            defs = {"P2": "1"} if "-DP2" in c["args"] else {}
            r = cpp.preprocess(tu, [c["args"][i + 1] for i, a in enumerate(c["args"]) if a == "-I"], [], defs)
            parsed |= r.parsed_files
            for e in r.events:
                if e[0] == "missing-include":
                    key = ("missing-include", os.path.relpath(e[1], os.path.realpath(root)), e[2], e[3], e[4])
                    ev[key] = ev.get(key, 0) + 1
    rr = os.path.realpath(root)
    allfiles = set(parsed)
    for dp, _, fns in os.walk(rr):
        for fn in fns:
            if os.path.splitext(fn)[1] in (".c", ".h"):
                allfiles.add(os.path.join(dp, fn))
    for f in sorted(allfiles):
        for ln, text in enumerate(cpp.read(f), start=1):
            m = re.match(r"\s*#\s*(\w+)", text)
            if m and m.group(1) not in ("include", "define", "undef", "if", "ifdef", "ifndef", "elif", "else", "endif", "pragma", "line", "warning", "error"):
                ev[("unknown-directive", os.path.relpath(f, rr), ln, m.group(1), None)] = 1
    F = set(faults)
    rep = int("repeated-db-events" in F)
    for fault, key in (("db-missing-file", ("missing-file", "src/gone.c", None, None, None)), ("unknown-compiler", ("unknown-compiler", None, None, "weirdcc", None)),
                       ("unknown-flag", ("unknown-arguments", None, None, "-fweird", None))):
        if int(fault in F) + rep:
            ev[key] = int(fault in F) + rep
    return ev


EXACT = ("missing-file", "unknown-compiler", "unknown-arguments")     # database-level events: exactly one warning per entry


PATTERNS = [
    (re.compile(r"^(.*?):(\d+): (user|system) include '(.*?)' not found"), lambda m, r: ("missing-include", os.path.relpath(m.group(1), r), int(m.group(2)), m.group(4), "quote" if m.group(3) == "user" else "angle")),
    (re.compile(r"^(.*?):(\d+):(\d+): unrecognized directive '.*?#\s*(\w+)"), lambda m, r: ("unknown-directive", os.path.relpath(m.group(1), r), int(m.group(2)), m.group(4), None)),
    (re.compile(r"^Ignoring non-existent file: (.*)$"), lambda m, r: ("missing-file", os.path.relpath(m.group(1), r), None, None, None)),
    (re.compile(r"^Compiler '(.*?)' not recognized"), lambda m, r: ("unknown-compiler", None, None, m.group(1), None)),
    (re.compile(r"^Unrecognized arguments: '(.*)'$"), lambda m, r: ("unknown-arguments", None, None, m.group(1), None)),
]


def classify(msgs, root):
    rr = os.path.realpath(root)
    got = {}
    other = []
    for msg in msgs:
        for pat, mk in PATTERNS:
            m = pat.match(msg)
            if m:
                k = mk(m, rr)
                got[k] = got.get(k, 0) + 1
                break
        else:
            other.append(msg)
    return got, other


def observe_inprocess(root, plats):
    from codebasin import CodeBase, finder

    codebase.write_analysis(root, plats)
    env.capture.records.clear()
    try:
        cfg = codebase.configuration(root, plats)
        finder.find(root, CodeBase(root), cfg)
    except Exception as e:  # noqa
        return ("EXC", f"{type(e).__name__}: {e}")
    msgs = [r.getMessage() for r in env.capture.records if r.levelno == logging.WARNING]
    return classify(msgs, root)


def observe_cli(root):
    r = cli.run("codebasin", ["-R", "summary", "analysis.toml"], root)
    if r["rc"] != 0:
        return ("EXC", f"exit {r['rc']}: {r['out'][-200:]}")
    out = r["out"]
    tot = re.search(r"(\d+) warnings generated during preprocessing", out)
    usr = re.search(r"(\d+) user include files could not be found", out)
    sysm = re.search(r"(\d+) system include files could not be found", out)
    printed = (int(tot.group(1)) if tot else 0, int(usr.group(1)) if usr else 0, int(sysm.group(1)) if sysm else 0)
    log = r["log"] or ""
    lines = [ln for ln in log.splitlines() if ln.startswith("warning: ")]
    meta = ("warnings generated during preprocessing", "user include files could not be found", "system include files could not be found")
    real = [ln for ln in lines if not any(m in ln for m in meta)]
    logged = (len(real), sum(1 for ln in real if "user include" in ln), sum(1 for ln in real if "system include" in ln))
    return printed, logged


def judge(root, faults, with_cli=True):
    plats = build(root, faults)
    exp = model(root, plats, faults)
    got = observe_inprocess(root, plats)
    if got[0] == "EXC":
        return [("exception", _show(exp), got[1])]
    got, other = got
    bad = []
    if set(got) != set(exp):
        bad.append(("event-set", {"missing": _show({k: exp[k] for k in set(exp) - set(got)}), "unexpected": _show({k: got[k] for k in set(got) - set(exp)})}, _show(got)))
    for k in set(got) & set(exp):
        if not (1 <= got[k] <= exp[k]) or (k[0] in EXACT and got[k] != exp[k]):
            bad.append(("multiplicity", f"{_ev(k)}: between 1 and {exp[k]}", got[k]))
    if other:
        bad.append(("unexpected-warning", "no other warning", other[:3]))
    if with_cli and not bad:
        c = observe_cli(root)
        if c[0] == "EXC":
            bad.append(("cli-exception", "exit 0", c[1]))
        else:
            printed, logged = c
            if printed != logged:
                bad.append(("closing-totals", {"warnings in cbi.log (total, user include, system include)": list(logged)}, {"printed": list(printed)}))
            want = (sum(got.values()), sum(v for k, v in got.items() if k[0] == "missing-include" and k[4] == "quote"), sum(v for k, v in got.items() if k[0] == "missing-include" and k[4] == "angle"))
            if logged[1:] != want[1:] or logged[0] < want[0]:
                bad.append(("cbi-log", {"records issued in-process (total, user, system)": list(want)}, {"cbi.log": list(logged)}))
    return bad


def _ev(k):
    return "/".join(str(x) for x in k if x is not None)


def _show(d):
    return sorted(f"{_ev(k)} x{v}" for k, v in d.items())


def _work(arg):
    cases, with_cli = arg
    root = os.path.join(env.fresh_dir("c18"), "root")
    n = 0
    fails = []
    nontriv = 0
    for faults in cases:
        n += 1
        if faults:
            nontriv += 1
        b = judge(root, faults, with_cli)
        if b:
            fails.append((faults, b[0][0]))
    out = []
    seen = set()
    for faults, kind in fails[:20]:
        def fl(fs):
            return any(x[0] == kind for x in judge(root, list(fs), with_cli))

        def cands(fs):
            for i in range(len(fs)):
                yield fs[:i] + fs[i + 1:]
        def mk():
            if not fl(tuple(faults)):
                return None
            w = shrink.minimize(tuple(faults), cands, fl)
            b = [x for x in judge(root, list(w), with_cli) if x[0] == kind][0]
            return Failure(kind, {"faults": list(w)}, expected=b[1], observed=b[2])
        f = robust(mk, {"faults": list(faults)})
        if f.key() not in seen:
            seen.add(f.key())
            out.append(f)
    shutil.rmtree(os.path.dirname(root), ignore_errors=True)
    return n, nontriv, len(fails), out


# ------------------------------------------------------------------ S: include sequences and the memo
SEQ_DIRS = ['#include "missing.h"', "#include <missing.h>", '#include "h.h"', '#include "sub/k.h"', "#include <missing2.h>",
            # present beside the includer only: the angle form must miss (and warn), the quote form must be found (and stay silent)
            "#include <local.h>", '#include "local.h"']


def _seq_run(seq):
    from codebasin import finder, platform

    root = os.path.join(env.fresh_dir("c18s"), "root")
    files = {"src/main.c": "\n".join(list(seq) + ["int t;"]) + "\n", "src/sub/k.h": 'int k;\n#include "missing.h"\n', "inc1/h.h": "int h;\n", "src/local.h": "int local;\n"}
    codebase.write_tree(root, files)
    inc = os.path.join(root, "inc1")
    r = cpp.preprocess(os.path.join(root, "src/main.c"), [inc], [])
    exp = {}
    rr = os.path.realpath(root)
    for e in r.events:
        k = ("missing-include", os.path.relpath(e[1], rr), e[2], e[3], e[4])
        exp[k] = exp.get(k, 0) + 1
    st = finder.ParserState(True)
    path = os.path.join(root, "src/main.c")
    st.insert_file(path)
    pf = platform.Platform("p", root)
    pf.add_include_path(inc)
    env.capture.records.clear()
    try:
        st.associate(path, pf)
    except Exception as e:  # noqa
        shutil.rmtree(os.path.dirname(root), ignore_errors=True)
        return seq, "EXC", str(e), None
    msgs = [x.getMessage() for x in env.capture.records if x.levelno == logging.WARNING]
    got, other = classify(msgs, root)
    key = tuple(sorted((repr(k).replace(root, "$R"), (v or "None").replace(root, "$R")) for k, v in pf.found_incl.items()))
    shutil.rmtree(os.path.dirname(root), ignore_errors=True)
    ok = set(got) == set(exp) and all(1 <= got[k] <= exp[k] for k in got) and not other
    return seq, ok, (_show(exp), _show(got), other[:2]), key


def explore_sequences(depth):
    seqs = [tuple(s) for k in range(1, depth + 1) for s in itertools.product(SEQ_DIRS, repeat=k)]
    res = par.pmap(_seq_run, seqs, chunksize=8)
    states = set()
    fails = []
    for seq, ok, detail, key in res:
        if key is not None:
            states.add(key)
        if ok is not True:
            fails.append((seq, detail))
    out = []
    for seq, detail in sorted(fails, key=lambda f: len(f[0]))[:5]:
        out.append(Failure("sequence", {"directives": list(seq)}, expected=detail[0] if isinstance(detail, tuple) else None, observed=detail[1:] if isinstance(detail, tuple) else detail))
    return {"states": len(states), "transitions": len(seqs), "max_depth": depth}, out


def run(tier):
    rep = Report(ID, "model_checking")
    kmax = 3 if tier == "quick" else 4
    cases = [list(c) for r in range(0, kmax + 1) for c in itertools.combinations(FAULTS, r)]
    if tier == "quick":
        cases = [c for c in cases if len(c) < 3 or (hash(tuple(c)) + env.SEED) % 2 == 0]
    chunks = [cases[i:i + 12] for i in range(0, len(cases), 12)]
    res = par.pmap(_work, [(c, True) for c in chunks])
    for r in res:
        rep.add(r[3])
    sinfo, sfails = explore_sequences(3 if tier == "quick" else 4)
    rep.add(sfails)
    n = sum(r[0] for r in res)
    rep.coverage.update({
        "states": sinfo["states"], "transitions": sinfo["transitions"], "traces_validated_against_impl": sinfo["transitions"] + n,
        "evaluations": n + sinfo["transitions"], "distinct_nontrivial": sum(r[1] for r in res),
        "rule": "every subset of <=%d of 14 fault sites%s, each analysed in-process (records of the 'codebasin' logger) and through the codebasin CLI (closing totals vs cbi.log); "
                "S: every sequence of <=%d include directives over 7 forms on one Platform, state = its include memo" % (kmax, " (3-subsets: a seed-chosen half)" if tier == "quick" else "", 3 if tier == "quick" else 4),
        "fault_sites": FAULTS, "cases": n, "failing_cases": sum(r[2] for r in res), "S": sinfo,
        "samples": [{"faults": cases[20]}, {"faults": cases[-1]}, {"sequence": list(SEQ_DIRS[:3])}],
        "exhaustive": True,
    })
    rep.assumptions = ["multiplicity per (file, line) is bounded (1 .. number of reach events), not fixed: de-duplicating identical records is not an alarm",
                       "message wording beyond the named fields (file, line, name, quote/angle kind) is not compared"]
    return rep


def replay(witness, kind=None):
    if "directives" in witness:
        seq, ok, detail, key = _seq_run(tuple(witness["directives"]))
        return {"violates": ok is not True, "detail": detail}
    root = os.path.join(env.fresh_dir("c18r"), "root")
    b = judge(root, witness["faults"])
    return {"violates": bool(b), "detail": b}
