"""C11 - -D/-I/-isystem/-include are extracted from any command line, robustly.

E (exhaustive for short vectors): every sequence of <= 3 (quick) / <= 4 over a reduced alphabet
(thorough) *argument groups*: the four recognised options in both spellings with hazardous
values, and a catalogue of real gcc/clang/icx/nvcc flags CBI does not model (one per parsing
hazard).  Each vector is parsed by config.ArgumentParser(argv0).parse_args and, rendered with
shlex.join, must split back to the same argv through CompileCommand(command=...).
Oracle: a 30-line reference extractor implementing gcc's Joined|Separate rule for the four
options and skipping everything else using the catalogue's own arity.
"""
import itertools
import os
import shlex

from ..core import env, par, result, shrink
from ..core.result import Failure, Report, robust

ID = "C11"

RECOGNISED = [
    ["-DA"], ["-D", "A"], ["-DA=1"], ["-D", "A=1"], ["-DA=-1"], ["-DA=b c"], ["-D", "F(x)=x"], ["-DQ=\"s\""], ["-D", "E="],
    ["-I/p"], ["-I", "/p"], ["-Irel/p"], ["-I", "rel/p"], ["-I."],
    ["-isystem", "/s"], ["-isystem/s"], ["-isystem", "rel/s"],
    ["-include", "f.h"], ["-includef.h"], ["-include", "/abs/g.h"],
    # runs of white space inside a value (two blanks, a tab) survive every rendering of the command string
    ["-DW=x  y"], ["-include", "t\tf.h"],
]
CATALOGUE = [
    ["-g"], ["-g3"], ["-ggdb"], ["-gdwarf-4"], ["-O"], ["-O2"], ["-Ofast"], ["-Os"], ["-o", "x"], ["-ox"], ["-c"], ["-Wall"], ["-std=c++17"],
    ["-MF", "x"], ["-MD"], ["-fPIC"], ["-march=native"], ["-x", "c++"], ["-ccbin", "g++"], ["-cuda"], ["-cxx-isystem", "d"], ["-iquote", "q"],
    ["-idirafter", "q"], ["-imacros", "m.h"], ["-UB"], ["-pthread"], ["-fopenmp-simd"], ["@rsp"], ["file.c"], ["-"], ["-Wl,-rpath,/x"],
    ["-Xcompiler", "-fPIC"], ["--sysroot=/r"], ["-fsycl-unnamed-lambda"], ["-qopenmp-stubs"],
]
ARGV0 = ["mycc", "/usr/bin/gcc", "clang++", "icpx", "nvcc"]


def ref_extract(group):
    """One recognised option group -> (kind, value): gcc's Joined|Separate rule."""
    a = group[0]
    for flag in ("-isystem", "-include", "-D", "-I"):     # longest first
        if a == flag:
            return flag, group[1]
        if a.startswith(flag):
            return flag, a[len(flag):]
    raise ValueError(group)


def expected(groups):
    d, i, s, f = [], [], [], []
    for g in groups:
        if list(g) in RECOGNISED:
            flag, v = ref_extract(list(g))
            {"-D": d, "-I": i, "-isystem": s, "-include": f}[flag].append(v)
    return d, i, s, f


def observe(argv0, argv):
    from codebasin import config

    env.capture.records.clear()
    try:
        cfgs = config.ArgumentParser(argv0).parse_args(list(argv))
    except BaseException as e:  # noqa  (argparse may call sys.exit)
        return ("EXC", f"{type(e).__name__}: {str(e)[:120]}")
    dflt = [c for c in cfgs if c.pass_name == "default"]
    if len(dflt) != 1:
        return ("EXC", f"{len(dflt)} default passes")
    c = dflt[0]
    return (list(c.defines), list(c.include_paths), list(c.include_files))


IMPLICIT = {"nvcc": ["__NVCC__", "__CUDACC__"]}


_memo = {}


def judge(argv0, groups):
    key = (argv0, tuple(tuple(g) for g in groups))
    if key not in _memo:
        if len(_memo) > 200000:
            _memo.clear()
        _memo[key] = _judge(argv0, [list(g) for g in groups])
    return _memo[key]


def _judge(argv0, groups):
    argv = [a for g in groups for a in g]
    d, i, s, f = expected(groups)
    got = observe(argv0, argv)
    if got[0] == "EXC":
        return [("exception", {"defines": d, "I": i, "isystem": s, "include": f}, got[1])]
    gd, gp, gf = got
    imp = IMPLICIT.get(os.path.basename(argv0), [])
    bad = []
    if gd != d + imp:
        bad.append(("defines", d + imp, gd))
    gi = [p for p in gp if p in i]
    gs = [p for p in gp if p in s]
    if gi != i or gs != s or len(gp) != len(i) + len(s):
        bad.append(("include_paths", {"I": i, "isystem": s}, gp))
    if gf != f:
        bad.append(("include_files", f, gf))
    # command-string form == arguments form
    from codebasin import CompileCommand

    full = [argv0] + argv
    for style, text in (("single-quoted", shlex.join(full)), ("backslash-escaped", " ".join(_bs(a) for a in full)), ("double-quoted", " ".join(_dq(a) for a in full))):
        back = CompileCommand("f.c", command=text).arguments
        if back != full:
            bad.append(("command-form", {"style": style, "command": text, "argv": full}, back))
            break
    return bad


def _bs(a):
    """POSIX shell quoting with backslashes only (what CMake / Ninja emit)"""
    return "".join(c if (c.isalnum() or c in "-_./=+,:@%") else "\\" + c for c in a) or "''"


def _dq(a):
    """shell quoting with double quotes (only \" and \\ are escaped: the alphabet has no $ or backquote, which shlex and sh treat differently)"""
    if a and all(c.isalnum() or c in "-_./=+,:@%" for c in a):
        return a
    return '"' + "".join("\\" + c if c in '"\\' else c for c in a) + '"'


def mk_failure(argv0, groups):
    j = judge(argv0, groups)
    if not j:
        return None
    kind = j[0][0]

    def fails(w):
        jj = judge(w[0], list(w[1]))
        return bool(jj) and jj[0][0] == kind

    def cands(w):
        a0, gs = w
        for k in range(len(gs)):
            yield (a0, gs[:k] + gs[k + 1:])
        if a0 != ARGV0[0]:
            yield (ARGV0[0], gs)

    a0, gs = shrink.minimize((argv0, tuple(tuple(g) for g in groups)), cands, fails)
    jj = judge(a0, [list(g) for g in gs])[0]
    return Failure(kind, {"argv0": a0, "argv": [a for g in gs for a in g], "groups": [list(g) for g in gs]}, expected=jj[1], observed=jj[2])


def _work(arg):
    first_groups, rest_alpha, depth, argv0s = arg
    n = 0
    fails = []
    outcomes = set()
    for first in first_groups:
        for k in range(0, depth):
            for tail in itertools.product(rest_alpha, repeat=k):
                groups = [first] + list(tail)
                for a0 in argv0s:
                    n += 1
                    if judge(a0, groups):
                        fails.append((a0, groups))
                outcomes.add(repr(expected(groups)))
    out = []
    seen = set()
    wit = lambda ag: {"argv0": ag[0], "argv": [x for g in ag[1] for x in g]}  # noqa
    for f in result.shrink_within_budget(fails, lambda ag: robust(mk_failure, wit(ag), ag[0], ag[1]), wit):
        if f.key() not in seen:
            seen.add(f.key())
            out.append(f)
    return n, len(fails), out, len(outcomes)


HIST = [["-DA=b c"], ["-DA=b", "c"], ["-I", "/p"], ["-I/p"], ["-isystem", "/s"], ["-DQ"], [], ["-D", "A=b", "c"], ["-include", "f.h", "-I", "/p"], ["-I/p", "-isystem", "/s"],
        # the same options as an earlier vector, other values given as separate arguments
        ["-I", "/q"], ["-include", "g.h", "-I", "/q"]]


def _history(arg):
    """Sequences of parse_args calls in ONE process: each call must give what the reference extractor says for
    its own vector, whatever was parsed before (no result may be remembered under a coarser key)."""
    seqs, argv0 = arg
    out = []
    n = 0
    from codebasin import config
    for seq in seqs:
        config._compilers = None
        for k, i in enumerate(seq):
            n += 1
            v = HIST[i]
            got = observe(argv0, v)
            d, inc, sysd, f = _hist_expected(v)
            imp = IMPLICIT.get(os.path.basename(argv0), [])
            if got[0] == "EXC" or got[0] != d + imp or sorted(got[1]) != sorted(inc + sysd) or got[2] != f:
                out.append(Failure("history", {"argv0": argv0, "calls": [HIST[j] for j in seq[:k + 1]]},
                                   expected={"defines": d + imp, "include_paths": inc + sysd, "include_files": f}, observed=got if got[0] == "EXC" else list(got)))
                break
    return n, out[:5]


def _db_history(arg):
    """The same call sequences as entries of ONE compilation database (config.load_database) and as calls on ONE
    ArgumentParser object: entry k must get what its own vector says, whatever the entries before it were."""
    seqs, argv0 = arg
    import json
    from codebasin import config

    root = env.fresh_dir("c11db")
    for k in range(4):
        open(os.path.join(root, f"f{k}.c"), "w").write("int x;\n")
    out = []
    n = 0
    imp = IMPLICIT.get(os.path.basename(argv0), [])
    for seq in seqs:
        n += 1
        exp = []
        for i in seq:
            d, inc, sysd, f = _hist_expected(HIST[i])
            exp.append((d + imp, sorted(inc + sysd), f))
        db = os.path.join(root, "db.json")
        with open(db, "w") as fh:
            json.dump([{"file": f"f{k}.c", "directory": root, "arguments": [argv0] + HIST[i] + ["-c", f"f{k}.c"]} for k, i in enumerate(seq)], fh)
        env.reset_compilers()
        for mode in ("one database", "one ArgumentParser object"):
            try:
                if mode == "one database":
                    cfg = [e for e in config.load_database(db, root) if e["pass_name"] == "default"]
                    got = [(list(e["defines"]), sorted(e["include_paths"]), list(e["include_files"])) for e in cfg]
                else:
                    p = config.ArgumentParser(argv0)
                    got = []
                    for i in seq:
                        c = [c for c in p.parse_args(list(HIST[i])) if c.pass_name == "default"][0]
                        got.append((list(c.defines), sorted(c.include_paths), list(c.include_files)))
            except BaseException as e:  # noqa
                got = f"{type(e).__name__}: {str(e)[:120]}"
            if got != exp:
                out.append(Failure("history", {"argv0": argv0, "calls": [HIST[j] for j in seq], "through": mode},
                                   expected=[{"defines": a, "include_paths": b, "include_files": c} for a, b, c in exp],
                                   observed=got if isinstance(got, str) else [{"defines": a, "include_paths": b, "include_files": c} for a, b, c in got]))
                break
        if len(out) >= 5:
            break
    import shutil
    shutil.rmtree(root, ignore_errors=True)
    return n, out


def _hist_expected(v):
    d, inc, sysd, f = [], [], [], []
    i = 0
    while i < len(v):
        a = v[i]
        for flag, dest in (("-isystem", sysd), ("-include", f), ("-D", d), ("-I", inc)):
            if a == flag:
                i += 1
                dest.append(v[i])
                break
            if a.startswith(flag) and a != flag and flag in ("-D", "-I"):
                dest.append(a[len(flag):])
                break
        i += 1
    return d, inc, sysd, f


def run(tier):
    rep = Report(ID, "exploration")
    alpha = RECOGNISED + CATALOGUE
    rot = env.SEED % len(ARGV0)
    if tier == "quick":
        argv0s = [ARGV0[0], ARGV0[1 + (env.SEED % 4)]]
        jobs = [([g], alpha, 3, argv0s) for g in alpha]
        desc = "all vectors of <=3 groups over %d groups x argv0 %s" % (len(alpha), argv0s)
        # seed-selected extension: vectors of 4 groups that start with a seed-chosen recognised + catalogue pair
        a, b = RECOGNISED[env.SEED % len(RECOGNISED)], CATALOGUE[(env.SEED * 7) % len(CATALOGUE)]
        small = RECOGNISED[::3] + CATALOGUE[::4]
        jobs += [([a], [b] + small, 4, [ARGV0[0]])]
    else:
        argv0s = ARGV0
        jobs = [([g], alpha, 3, argv0s) for g in alpha]
        small = RECOGNISED[::2] + CATALOGUE[::2]
        jobs += [([g], small, 4, [ARGV0[0], ARGV0[1]]) for g in small]
        desc = "all vectors of <=3 groups over %d groups x %d argv0, all vectors of 4 groups over a %d-group sub-alphabet" % (len(alpha), len(argv0s), len(small))
    res = par.pmap(_work, jobs)
    for r in res:
        rep.add(r[2])
    hl = 2 if tier == "quick" else 3
    hseqs = [s_ for k in range(1, hl + 1) for s_ in itertools.product(range(len(HIST)), repeat=k)]
    hres = par.pmap(_history, [(hseqs[i::8], a0) for a0 in argv0s for i in range(8)])
    dseqs = [s_ for k in range(2, hl + 2) for s_ in itertools.product(range(len(HIST)), repeat=k)]
    hres += par.pmap(_db_history, [(dseqs[i::8], a0) for a0 in argv0s for i in range(8)])
    for r in hres:
        rep.add(r[1])
    n = sum(r[0] for r in res) + sum(r[0] for r in hres)
    rep.coverage.update({
        "evaluations": n, "distinct_nontrivial": sum(r[3] for r in res),
        "rule": desc + "; each also rendered as a shell-quoted command string; distinct = distinct expected extractions",
        "groups": len(alpha), "failing_cases": sum(r[1] for r in res), "call_histories": (len(hseqs) + 2 * len(dseqs)) * len(argv0s),
        "samples": [{"argv0": "mycc", "argv": ["-DA=b c", "-ccbin", "g++", "-I", "rel/p"], "expected": expected([["-DA=b c"], ["-ccbin", "g++"], ["-I", "rel/p"]])}],
        "exhaustive": True,
    })
    rep.assumptions = ["order between -I and -isystem entries is not constrained here (C04)", "the compiler's implicit options (nvcc: -D__NVCC__ -D__CUDACC__) are expected after the command's own"]
    return rep


def replay(witness, kind=None):
    j = judge(witness["argv0"], witness["groups"])
    return {"violates": bool(j), "detail": j}
