"""C02 - #if expressions are evaluated with ISO C intmax/uintmax semantics.

E: every AST with <= 1 operator over a boundary-value leaf set, and every AST with 2 operators
(both tree shapes, every ordered pair of binary operators; unary-in-binary; ?: mixed with
binary; nested ?:) over small leaf subsets.  Each AST is evaluated directly by the reference
(no reference parser), printed with only the parentheses C requires, and handed to the real
Lexer -> MacroExpander -> ExpressionEvaluator; the truth value of `E`, of `(E) == V`
(V = reference value, spelled in E's type) and of `(E) < 0` (signedness of the result) must be what C says.
Also: the same expressions through the whole pipeline (FileParser + finder.find), and the
clause "an #elif of a chain that already selected a branch is not evaluated".
Ground truth cross-check: gcc -E in batch on every enumerated expression (thorough) or on
the n<=1 universe (quick).
"""
import itertools
import os
import warnings

from ..core import env, gcc, par, result, shrink
from ..core.result import Failure, Report, robust
from ..ref import cexpr

ID = "C02"

INTS = ["0", "1", "2", "3", "7", "8", "63", "64", "9223372036854775807", "0x7fffffffffffffff",
        "0x8000000000000000", "0xffffffffffffffff", "18446744073709551615u", "0u", "1u", "2U", "1L", "2UL", "3LL", "4ull",
        "5lu", "6LLU", "7uLL", "8Ul", "010", "017", "0x10", "0X1F", "0b11", "0B10", "00"]
CHARS = ["'a'", "'0'", "' '", "'\\n'", "'\\0'", "'\\\\'", "'\\''", "'\\x41'", "'\\101'",  "'\\12'", "'\\x7'", "'\"'", "'\\t'"]


def L(sp):
    return ("lit", sp)


IDS = [("id", "UNDEF"), ("mac", "M1", L("1")), ("def", "M1", True, 1), ("def", "UNDEF", False, 0),
       ("def", "M1", False, 1), ("def", "UNDEF", True, 0)]
LEAVES = [L(s) for s in INTS + CHARS] + IDS
S12 = [L(s) for s in ["0", "1", "2", "3", "7", "64", "1u", "0u", "9223372036854775807", "0x10", "'a'", "010"]]
S7 = [L(s) for s in ["0", "1", "2", "3", "7", "1u", "'a'"]]
S7B = [L(s) for s in ["0", "1", "2", "5", "63", "2u", "9223372036854775807"]]
S5 = [L(s) for s in ["0", "1", "2", "7", "1u"]]
S4 = [L(s) for s in ["0", "1", "2", "3u"]]
C6 = [L("0"), L("1"), L("2u"), ("id", "UNDEF"), ("def", "M1", True, 1), L("0u")]

ELIF_BAD = ["1 +", "", '"s"', "1 / 0", "(", "1 1", ")", "1 ? 2", "@", "defined", "M1 (", "0x"]


# ------------------------------------------------------------------ universes
def universe_n1():
    for op in cexpr.UNARY:
        for a in LEAVES:
            yield ("un", op, a)
    for op in cexpr.BINARY:
        for a in LEAVES:
            for b in LEAVES:
                yield ("bin", op, a, b)
    for c in C6:
        for a in LEAVES:
            for b in S12:
                yield ("tern", c, a, b)
                if a not in S12:
                    yield ("tern", c, b, a)
    for a in LEAVES:
        yield a


def universe_n2(leaves, leaves5, leaves4):
    for o1 in cexpr.BINARY:
        for o2 in cexpr.BINARY:
            for a, b, c in itertools.product(leaves, repeat=3):
                yield ("bin", o2, ("bin", o1, a, b), c)
                yield ("bin", o1, a, ("bin", o2, b, c))
    for u in cexpr.UNARY:
        for o in cexpr.BINARY:
            for a, b in itertools.product(S12, repeat=2):
                yield ("bin", o, ("un", u, a), b)
                yield ("bin", o, a, ("un", u, b))
                yield ("un", u, ("bin", o, a, b))
        for u2 in cexpr.UNARY:
            for a in LEAVES:
                yield ("un", u, ("un", u2, a))
    for o in cexpr.BINARY:
        for c, a, b, d in itertools.product(leaves5, repeat=4):
            yield ("bin", o, ("tern", c, a, b), d)
            yield ("bin", o, d, ("tern", c, a, b))
            yield ("tern", c, a, ("bin", o, b, d))
            yield ("tern", ("bin", o, c, d), a, b)
            yield ("tern", c, ("bin", o, a, d), b)
    for c, a, b, d, e in itertools.product(leaves4, repeat=5):
        yield ("tern", c, a, ("tern", d, b, e))
        yield ("tern", ("tern", c, a, b), d, e)
        yield ("tern", c, ("tern", d, a, b), e)


def universe_tern_sign():
    """?: with one signed and one unsigned branch (the result has the common type whichever branch is selected),
    negative values among the operands, alone and under every binary operator"""
    vals = [L("0u"), L("1u"), L("2"), L("7"), ("un", "-", L("1")), ("un", "-", L("2u"))]
    for c in (L("0"), L("1")):
        for a in vals:
            for b in vals:
                t = ("tern", c, a, b)
                yield t
                for o in cexpr.BINARY:
                    yield ("bin", o, t, L("2"))
                    yield ("bin", o, L("2"), t)


# ------------------------------------------------------------------ the real code
_plat = None


def _platform():
    from codebasin import platform, preprocessor

    p = platform.Platform("p", "/")
    m = preprocessor.macro_from_definition_string("M1=1")
    p.define("M1", m)
    return p


def cbi_truth(text):
    """bool, or ('EXC', msg)"""
    from codebasin import preprocessor as pp

    try:
        toks = pp.Lexer(text).tokenize()
        exp = pp.MacroExpander(_platform()).expand(toks)
        r = pp.ExpressionEvaluator(exp).evaluate()
        return bool(r)
    except Exception as e:  # noqa
        return ("EXC", f"{type(e).__name__}: {str(e)[:80]}")


def judge(ast, full=False):
    """None if excluded (undefined in C), [] if fine, else list of (kind, expected, observed, text)."""
    v, u = cexpr.ev(ast)
    if v is None:
        return None
    out = []
    t = cexpr.text(ast, full)
    got = cbi_truth(t)
    exp = v != 0
    if isinstance(got, tuple):
        out.append(("exception", exp, got[1], t))
        return out
    if got != exp:
        out.append(("truth", exp, got, t))
        return out
    t2 = f"( {t} ) == {cexpr.value_literal(v, u)}"
    got2 = cbi_truth(t2)
    if got2 is not True:
        out.append(("value", f"{v}{'u' if u else ''}", got2 if not isinstance(got2, tuple) else got2[1], t2))
        return out
    # == converts both sides to a common type, so it cannot see a wrong signedness of the result: `(E) < 0` can
    t3 = f"( {t} ) < 0"
    got3 = cbi_truth(t3)
    if got3 is not (v < 0 and not u):
        out.append(("type", f"{'unsigned' if u else 'signed'} {v}: ( E ) < 0 is {v < 0 and not u}", got3 if not isinstance(got3, tuple) else got3[1], t3))
    return out


def _tj(a):
    return [_tj(x) if isinstance(x, tuple) else x for x in a]


def _ft(a):
    return tuple(_ft(x) if isinstance(x, list) else x for x in a)


def _shrink_cands(ast):
    """Simpler ASTs: a proper subtree in place of the whole, then simpler leaves / subtrees in place."""
    t = ast[0]
    kids = {"un": [2], "bin": [2, 3], "tern": [1, 2, 3]}.get(t, [])
    for i in kids:
        yield ast[i]
    if t in ("lit", "id", "mac", "def"):
        for s in ("0", "1", "2"):
            if ast != L(s) and not (t == "lit" and ast[1] in ("0", "1", "2") and ast[1] <= s):
                yield L(s)
    for i in kids:
        for c in _shrink_cands(ast[i]):
            yield ast[:i] + (c,) + ast[i + 1:]


def mk_failure(ast, full=False):
    j = judge(ast, full)
    if not j:
        return None
    kind = j[0][0]

    def fails(a):
        jj = judge(a, full)
        return bool(jj) and jj[0][0] == kind

    w = shrink.minimize(ast, _shrink_cands, fails)
    jj = judge(w, full)[0]
    return Failure(kind, {"expr": jj[3], "ast": _tj(w), "full": full}, expected=jj[1], observed=jj[2],
                   original={"expr": j[0][3]})


# ------------------------------------------------------------------ workers
def _chunk(items, n):
    buf = []
    for x in items:
        buf.append(x)
        if len(buf) >= n:
            yield buf
            buf = []
    if buf:
        yield buf


def _work(arg):
    asts, full = arg
    warnings.simplefilter("ignore")
    tested = defined = 0
    fails = []
    truths = [0, 0]
    for a in asts:
        tested += 1
        j = judge(a, full)
        if j is None:
            continue
        defined += 1
        truths[int(cexpr.ev(a)[0] != 0)] += 1
        if j:
            fails.append(a)
    out = []
    seen = set()
    wit = lambda a: {"expr": cexpr.text(a, full), "ast": _tj(a), "full": full}  # noqa
    for f in result.shrink_within_budget(fails, lambda a: robust(mk_failure, wit(a), a, full), wit):
        if f.key() not in seen:
            seen.add(f.key())
            out.append(f)
    return tested, defined, len(fails), out, truths


def _gcc_check(asts):
    """Cross-validate the reference with gcc: returns (checked, disagreements[list], ub_confirmed)."""
    warnings.simplefilter("ignore")
    texts = [cexpr.text(a) for a in asts]
    res = gcc.batch_if(texts, defines=["M1 1"])
    dis = []
    checked = ub_ok = 0
    for a, t, r in zip(asts, texts, res):
        v, u = cexpr.ev(a)
        if v is None:
            continue            # reference excludes it; gcc's opinion is irrelevant
        checked += 1
        if r["value"] is None:
            dis.append((t, "ref=%s gcc=error %s" % (v, r["diag"][:1])))
        elif r["value"] != (v != 0):
            dis.append((t, "ref=%s gcc=%s" % (v, r["value"])))
    return checked, dis[:20], len(dis)


def _gcc_pinned(asts):
    """As _gcc_check but pins the value: gcc must find `(E) == V` true."""
    texts = []
    keep = []
    for a in asts:
        v, u = cexpr.ev(a)
        if v is None:
            continue
        keep.append(a)
        texts.append(f"( {cexpr.text(a)} ) == {cexpr.value_literal(v, u)}")
    res = gcc.batch_if(texts, defines=["M1 1"])
    dis = [(t, str(r)) for t, r in zip(texts, res) if r["value"] is not True]
    return len(texts), dis[:20], len(dis)


# ------------------------------------------------------------------ pipeline (FileParser + finder)
def _pipeline(arg):
    """`#if E / a / #else / b / #endif` blocks in one file through finder.find; returns mismatching ASTs."""
    asts, tag = arg
    warnings.simplefilter("ignore")
    from codebasin import CodeBase, finder

    d = env.fresh_dir("c02p")
    path = os.path.join(d, f"t{tag}.c")
    lines = []
    expect = {}
    for a in asts:
        v, _ = cexpr.ev(a)
        lines += [f"#if {cexpr.text(a)}", "int a;", "#else", "int b;", "#endif"]
        n = len(lines)
        expect[n - 3] = v != 0      # line number of 'int a;'
        expect[n - 1] = v == 0
    with open(path, "w") as f:
        f.write("\n".join(lines) + "\n")
    cfg = {"p": [{"file": path, "defines": ["M1=1"], "include_paths": [], "include_files": []}]}
    bad = []
    try:
        state = finder.find(d, CodeBase(d), cfg)
        assoc = state.get_map(path)
        used = set()
        for node, plats in assoc.items():
            if "p" in plats and hasattr(node, "lines"):
                used.update(node.lines)
        for i, a in enumerate(asts):
            la, lb = 5 * i + 2, 5 * i + 4
            if (la in used) != expect[la] or (lb in used) != expect[lb]:
                bad.append(a)
    except Exception as e:  # noqa
        if len(asts) == 1:
            return [(asts[0], f"{type(e).__name__}: {e}")]
        h = len(asts) // 2
        return _pipeline((asts[:h], tag + "a")) + _pipeline((asts[h:], tag + "b"))
    return [(a, "branch") for a in bad]


def _elif_cases():
    """Programs in which an #elif / nested group must not be evaluated."""
    out = []
    for bad in ELIF_BAD:
        out.append((["#if 1", "int a;", f"#elif {bad}", "int b;", "#endif", "int c;"], {2: True, 4: False, 6: True}))
        out.append((["#if 0", "int a;", "#elif 1", "int b;", f"#elif {bad}", "int c;", "#else", "int d;", "#endif"],
                    {2: False, 4: True, 6: False, 8: False}))
        out.append((["#if 0", "#if 1", "int a;", f"#elif {bad}", "int b;", "#endif", "#endif", "int c;"],
                    {3: False, 5: False, 8: True}))
        out.append((["#ifdef M1", "int a;", f"#elif {bad}", "int b;", "#else", "int c;", "#endif"],
                    {2: True, 4: False, 6: False}))
        # a nested chain that selects nothing, inside the taken branch of a chain that goes on with the bad #elif
        out.append((["#if 1", "#if 0", "int a;", "#endif", "int b;", f"#elif {bad}", "int c;", "#endif"], {3: False, 5: True, 7: False}))
        out.append((["#if 1", "#if 0", "int a;", "#elif 0", "int b;", "#endif", f"#elif {bad}", "int c;", "#else", "int d;", "#endif"],
                    {3: False, 5: False, 8: False, 10: False}))
    return out


def _elif_run(case):
    from codebasin import CodeBase, finder

    lines, expect = case
    d = env.fresh_dir("c02e")
    path = os.path.join(d, "t.c")
    with open(path, "w") as f:
        f.write("\n".join(lines) + "\n")
    cfg = {"p": [{"file": path, "defines": ["M1=1"], "include_paths": [], "include_files": []}]}
    try:
        state = finder.find(d, CodeBase(d), cfg)
    except Exception as e:  # noqa
        return ("exception", f"{type(e).__name__}: {str(e)[:80]}")
    used = set()
    for node, plats in state.get_map(path).items():
        if "p" in plats and hasattr(node, "lines"):
            used.update(node.lines)
    got = {k: (k in used) for k in expect}
    if got != expect:
        return ("branch", got)
    return None


def _elif_work(case):
    r = _elif_run(case)
    if r is None:
        return None
    lines, expect = case
    return Failure("elif-" + r[0], {"program": lines}, expected={str(k): v for k, v in expect.items()}, observed=r[1])


# ------------------------------------------------------------------ entry points
def run(tier):
    rep = Report(ID, "exploration")
    warnings.simplefilter("ignore")
    n1 = list(universe_n1())
    if tier == "quick":
        n2 = list(universe_n2(S7, S5[:4], S4[:3]))
    else:
        n2 = list(universe_n2(S7, S5, S4)) + [a for a in universe_n2(S7B, [], []) ]
    # seed-selected extension sub-universe: both shapes, all operator pairs, over a seed-chosen leaf triple
    rot = env.SEED % len(LEAVES)
    trio = [LEAVES[(rot + k * 7) % len(LEAVES)] for k in range(3)]
    ext = [a for a in universe_n2(trio, [], [])]
    allasts = n1 + n2 + ext + list(universe_tern_sign())
    res = par.pmap(_work, [(c, False) for c in _chunk(allasts, 4000)] + [(c, True) for c in _chunk(n1, 4000)])
    tested = sum(r[0] for r in res)
    defined = sum(r[1] for r in res)
    nfail = sum(r[2] for r in res)
    truths = [sum(r[4][0] for r in res), sum(r[4][1] for r in res)]
    for r in res:
        rep.add(r[3])
    # pipeline on the n<=1 universe (defined cases that pass directly)
    ok1 = [a for a in n1 if judge(a) == []] if tier == "thorough" else [a for a in n1[: 4 * len(LEAVES) + 4000] if judge(a) == []]
    pres = par.pmap(_pipeline, [(c, str(i)) for i, c in enumerate(_chunk(ok1, 400))])
    for bad in pres:
        for a, why in bad:
            rep.add([Failure("pipeline", {"expr": cexpr.text(a), "ast": _tj(a)}, observed=why)])
    # elif clause
    er = par.pmap(_elif_work, _elif_cases())
    rep.add([f for f in er if f])
    # gcc cross-validation of the reference model
    gstat = {"available": gcc.available()}
    if gcc.available():
        pool = allasts if tier == "thorough" else n1 + n2[::7]
        chunks = list(_chunk(pool, 20000))
        g = par.pmap(_gcc_check, chunks)
        g2 = par.pmap(_gcc_pinned, list(_chunk(n1 if tier == "quick" else pool, 20000)))
        gstat.update({"truth_checked": sum(x[0] for x in g), "truth_disagreements": sum(x[2] for x in g),
                      "pinned_checked": sum(x[0] for x in g2), "pinned_disagreements": sum(x[2] for x in g2),
                      "examples": [d for x in g + g2 for d in x[1]][:10]})
    rep.coverage.update({
        "evaluations": tested, "distinct_nontrivial": defined,
        "rule": "ASTs enumerated (not strings): all <=1-operator ASTs over %d leaves; all 2-operator ASTs (both shapes x 18x18 "
                "binary operator pairs, unary-in-binary, ?: with binary, nested ?:) over small leaf subsets; non-trivial = value "
                "defined by ISO C (no UB / implementation-defined operand)" % len(LEAVES),
        "leaves": len(LEAVES), "n1": len(n1), "n2": len(n2), "extension": {"leaves": [cexpr.text(x) for x in trio], "asts": len(ext)},
        "failing_cases": nfail, "expected_true": truths[1], "expected_false": truths[0],
        "pipeline_cases": len(ok1), "elif_cases": len(_elif_cases()),
        "oracle_gcc": gstat,
        "samples": [cexpr.text(a) for a in (n1[700], n1[30000], n2[1234], n2[-5], ext[17])],
        "exhaustive": True,
    })
    rep.assumptions = ["reference = direct AST evaluation with two's-complement 64-bit C semantics (ref/cexpr.py), cross-validated with gcc -E",
                       "excluded: division by zero, shift count <0 or >=64, signed overflow, shifts of negative values, unsuffixed decimal >= 2^63, char constants >= 0x80"]
    return rep


def replay(witness, kind=None):
    warnings.simplefilter("ignore")
    if "program" in witness:
        exp = None
        for lines, e in _elif_cases():
            if lines == witness["program"]:
                exp = e
        r = _elif_run((witness["program"], exp or {}))
        return {"violates": r is not None, "observed": r}
    if "ast" in witness:
        j = judge(_ft(witness["ast"]), witness.get("full", False))
        return {"violates": bool(j), "detail": j}
    got = cbi_truth(witness["expr"])
    return {"violates": None, "observed": got}
