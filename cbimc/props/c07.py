"""C07 - coverage, average coverage, distance and divergence equal their definitions.

E (exhaustive): every table {platform set -> count} over the 8 subsets of 3 platforms with each
entry absent or a count from a small set, plus 4-platform 0/1 tables and huge-count tables;
for each table every `platforms` argument, every platform pair, divergence, and the lines
printed by report.summary.  Oracle: exact rational arithmetic (fractions.Fraction).
"""
import io
import itertools
import math
import os
from fractions import Fraction

from ..core import env, par, result, shrink
from ..core.result import Failure, Report, robust

ID = "C07"
NAN = "nan"


def subsets(names):
    out = []
    for r in range(len(names) + 1):
        for c in itertools.combinations(names, r):
            out.append(frozenset(c))
    return out


# ------------------------------------------------------------------ reference
def r_platforms(t):
    s = set()
    for k in t:
        s |= k
    return s


def r_cov(t, P=None):
    total = sum(t.values())
    if P is None:
        P = r_platforms(t)
    if total == 0 or not P:
        return NAN
    used = sum(v for k, v in t.items() if k & P)
    return Fraction(100 * used, total)


def r_avg(t, P=None):
    if P is None:
        P = r_platforms(t)
    if not P:
        return NAN
    vals = [r_cov(t, {p}) for p in P]
    if NAN in vals:
        return NAN
    return sum(vals) / len(vals)


def r_dist(t, a, b):
    union = sum(v for k, v in t.items() if a in k or b in k)
    if union == 0:
        return NAN
    sym = sum(v for k, v in t.items() if (a in k) != (b in k))
    return Fraction(sym, union)


def r_div(t):
    P = sorted(r_platforms(t))
    pairs = list(itertools.combinations(P, 2))
    if not pairs:
        return NAN
    ds = [r_dist(t, a, b) for a, b in pairs]
    if NAN in ds:
        return NAN
    return sum(ds) / len(ds)


def _printed_ok(shown, exp):
    """A %.2f rendering is right if it is a correct rounding of the exact value (either way on a tie)."""
    if shown is None:
        return False
    if exp == NAN:
        return shown == "nan"
    try:
        v = Fraction(shown)
    except ValueError:
        return False
    return abs(v - exp) <= Fraction(1, 200) + Fraction(1, 10 ** 9)


def same(got, exp, zero_ok=False):
    """got: float from the implementation; exp: Fraction or NAN"""
    if exp == NAN:
        if zero_ok and not isinstance(got, tuple) and got == 0:
            return True       # distance between two platforms without any line: 0 ("zero on the diagonal") or NaN
        return isinstance(got, float) and math.isnan(got)
    if not isinstance(got, (int, float)) or (isinstance(got, float) and math.isnan(got)):
        return False
    e = float(exp)
    return abs(got - e) <= 1e-9 * max(1.0, abs(e))


# ------------------------------------------------------------------ the real code
def call(fn, *a):
    try:
        return fn(*a)
    except Exception as e:  # noqa
        return ("EXC", f"{type(e).__name__}: {e}")


def check_table(t, names, with_summary=True):
    """list of (what, expected, observed)"""
    from codebasin import report

    bad = []
    setmap = dict(t)
    argsets = [None] + [set(s) for s in subsets(names) if s]
    for P in argsets:
        for label, fn, ref in (("coverage", report.coverage, r_cov), ("average_coverage", report.average_coverage, r_avg)):
            got = call(fn, dict(setmap), None if P is None else set(P))
            exp = ref(t, None if P is None else set(P))
            if isinstance(got, tuple) or not same(got, exp):
                bad.append((f"{label}(platforms={None if P is None else sorted(P)})", str(exp), repr(got)))
    for a in names:
        for b in names:
            got = call(report.distance, dict(setmap), a, b)
            exp = r_dist(t, a, b)
            if isinstance(got, tuple) or not same(got, exp, zero_ok=(a == b)):
                bad.append((f"distance({a},{b})", str(exp), repr(got)))
    got = call(report.divergence, dict(setmap))
    exp = r_div(t)
    if isinstance(got, tuple) or not same(got, exp):
        bad.append(("divergence", str(exp), repr(got)))
    if with_summary:
        buf = io.StringIO()
        r = call(report.summary, dict(setmap), buf)
        if isinstance(r, tuple):
            bad.append(("summary", "prints the metric lines", r[1]))
        else:
            out = buf.getvalue()
            for label, ref in (("Code Divergence", r_div), ("Coverage (%)", r_cov), ("Avg. Coverage (%)", r_avg)):
                e = ref(t)
                es = "nan" if e == NAN else f"{float(e):.2f}"
                line = [ln for ln in out.splitlines() if ln.startswith(label + ":")]
                shown = line[0].split(":")[1].strip() if line else None
                if not _printed_ok(shown, e):
                    bad.append((f"summary line {label}", es, line[0] if line else None))
            tot = [ln for ln in out.splitlines() if ln.startswith("Total SLOC:")]
            if not tot or int(tot[0].split(":")[1]) != sum(t.values()):
                bad.append(("summary Total SLOC", sum(t.values()), tot))
    return bad


def check_history(t, names):
    """The same dict object is evaluated, changed in place, and evaluated again: every answer must be the one for the
    table as it is *now* (nothing may be remembered per object identity)."""
    from codebasin import report

    bad = []
    d = dict(t)
    for step in range(3):
        for a in names:
            for b in names:
                got = call(report.distance, d, a, b)
                exp = r_dist(d, a, b)
                if isinstance(got, tuple) or not same(got, exp, zero_ok=(a == b)):
                    bad.append((f"history step {step}: distance({a},{b})", str(exp), repr(got)))
        for label, fn, ref in (("divergence", report.divergence, r_div), ("coverage", report.coverage, r_cov), ("average_coverage", report.average_coverage, r_avg)):
            got = call(fn, d)
            if isinstance(got, tuple) or not same(got, ref(d)):
                bad.append((f"history step {step}: {label}", str(ref(d)), repr(got)))
        if bad:
            break
        # in-place edits: bump one count, then drop / add a key
        keys = sorted(d, key=lambda k: sorted(k))
        if step == 0 and keys:
            d[keys[0]] = d[keys[0]] + 7
        elif step == 1:
            if len(keys) > 1:
                del d[keys[-1]]
            d[frozenset(names[:2])] = d.get(frozenset(names[:2]), 0) + 2
    return bad


def tkey(t):
    return sorted((sorted(k), v) for k, v in t.items())


def untkey(lst):
    return {frozenset(k): v for k, v in lst}


def mk_failure(t, names):
    bad = check_table(t, names)
    if not bad:
        return None
    what = bad[0][0]

    def fails(tt):
        b = check_table(untkey(tt), names)
        return any(x[0] == what for x in b)

    def cands(tt):
        for i in range(len(tt)):
            yield tt[:i] + tt[i + 1:]
        for i, (k, v) in enumerate(tt):
            for s in (0, 1):
                if v > s:
                    yield tt[:i] + [(k, s)] + tt[i + 1:]

    w = shrink.minimize(tkey(t), cands, fails)
    b = [x for x in check_table(untkey(w), names) if x[0] == what][0]
    return Failure(what.split("(")[0], {"table": [[k, v] for k, v in w], "call": what}, expected=b[1], observed=b[2])


def _work(arg):
    names, keys, counts, lo, hi, scale = arg
    n = 0
    nontrivial = 0
    fails = []
    hist_fails = []
    outcomes = set()
    choices = [None] + list(counts)
    for idx in range(lo, hi):
        x = idx
        t = {}
        for k in keys:
            c = choices[x % len(choices)]
            x //= len(choices)
            if c is not None:
                t[k] = c * scale
        n += 1
        if sum(t.values()) > 0 and len(r_platforms(t)) >= 2:
            nontrivial += 1
        outcomes.add((str(r_div(t)), str(r_cov(t))))
        if check_table(t, names, with_summary=(idx % 7 == 0)):
            fails.append(t)
        elif idx % 5 == 0:
            hb = check_history(t, names)
            if hb:
                hist_fails.append((t, hb[0]))
    out = []
    seen = set()
    wit = lambda t: {"table": [[k, v] for k, v in tkey(t)]}  # noqa
    for f in result.shrink_within_budget(fails, lambda t: robust(mk_failure, wit(t), t, names), wit):
        if f.key() not in seen:
            seen.add(f.key())
            out.append(f)
    for t, b in hist_fails[:3]:
        out.append(Failure("history", {"table": [[sorted(k), v] for k, v in tkey(t)], "call": b[0]}, expected=b[1], observed=b[2],
                           note="the same dict object, edited in place between evaluations"))
    return n, nontrivial, len(fails) + len(hist_fails), out, len(outcomes)


def _clustering(arg):
    """The printed distance matrix of report.clustering for one table."""
    t, names = arg
    from codebasin import report

    d = env.fresh_dir("c07")
    buf = io.StringIO()
    try:
        report.clustering(os.path.join(d, "o.png"), dict(t), buf)
    except Exception as e:  # noqa
        return [("clustering", "distance matrix", f"{type(e).__name__}: {e}")]
    out = buf.getvalue()
    P = sorted(r_platforms(t))
    bad = []
    rows = [ln for ln in out.splitlines() if ln.startswith("│") or ln.startswith("|")]
    cells = {}
    for ln in rows:
        parts = [c.strip() for c in ln.strip("│|").replace("│", "|").split("|")]
        if parts and parts[0] in P:
            cells[parts[0]] = parts[1:]
    for i, a in enumerate(P):
        for j, b in enumerate(P):
            e = r_dist(t, a, b)
            es = "nan" if e == NAN else f"{float(e):.2f}"
            if a not in cells or j >= len(cells[a]) or not _printed_ok(cells[a][j], e):
                bad.append((f"clustering matrix[{a}][{b}]", es, cells.get(a)))
    return bad


def run(tier):
    rep = Report(ID, "exploration")
    salt = env.SEED % 5
    # one name is always a substring of another: membership must be by equality, never by `in` on a string
    names3 = [["a", "ab", "c"], ["cpu", "cpu-avx512", "gpu"], ["Z", "aZ", "B"], ["p1", "p10", "p2"], ["gpu", "xe-gpu", "y"]][salt]
    names4 = ["w", "x", "y", "z"]
    jobs = []

    def add(names, keys, counts, scale=1, step=4096):
        total = (len(counts) + 1) ** len(keys)
        for lo in range(0, total, step):
            jobs.append((names, keys, counts, lo, min(total, lo + step), scale))
        return total

    sizes = {}
    k3 = subsets(names3)
    if tier == "quick":
        sizes["3 platforms, entries absent/0/1/3"] = add(names3, k3, [0, 1, 3])
        k4 = [k for k in subsets(names4) if len(k) in (0, 1, 2, 4)][:10]
        sizes["4 platforms (10 keys), entries absent/1"] = add(names4, k4, [1])
        sizes["3 platforms, huge counts absent/1/10^12 (x(2^53+1))"] = add(names3, k3[1:7], [1, 10 ** 12], scale=2 ** 53 + 1)
    else:
        sizes["3 platforms, entries absent/0/1/2/5"] = add(names3, k3, [0, 1, 2, 5])
        sizes["4 platforms (16 keys), entries absent/1"] = add(names4, subsets(names4), [1], step=8192)
        sizes["3 platforms, huge counts absent/0/1/10^12 (x(2^53+1))"] = add(names3, k3, [0, 1, 10 ** 12], scale=2 ** 53 + 1)
        sizes["3 platforms scaled x3"] = add(names3, k3, [0, 1, 3], scale=3)
        sizes["3 platforms scaled x10^6"] = add(names3, k3, [0, 1, 3], scale=10 ** 6)
    res = par.pmap(_work, jobs)
    for r in res:
        rep.add(r[3])
    # clustering matrix on a fixed slice
    slice_tables = []
    base = [{frozenset(["a"]): 1, frozenset(["b"]): 1}, {frozenset(["a", "b"]): 2, frozenset(["c"]): 1, frozenset(): 4},
            {frozenset(["a", "b", "c"]): 5, frozenset(["a"]): 1, frozenset(["b", "c"]): 2}]
    if tier == "thorough":
        for i in range(0, 4 ** 8, 2731):
            x, t = i, {}
            for k in subsets(["a", "b", "c"]):
                c = [None, 0, 1, 3][x % 4]
                x //= 4
                if c is not None:
                    t[k] = c
            if len(r_platforms(t)) >= 2 and all(r_dist(t, a, b) != NAN for a in r_platforms(t) for b in r_platforms(t)):
                base.append(t)
    cl = par.pmap(_clustering, [(t, None) for t in base])
    for t, bad in zip(base, cl):
        for b in bad[:1]:
            rep.add([Failure("clustering", {"table": [[sorted(k), v] for k, v in t.items()], "call": b[0]}, expected=b[1], observed=b[2])])
    total = sum(r[0] for r in res)
    rep.coverage.update({
        "evaluations": total, "distinct_nontrivial": sum(r[1] for r in res),
        "rule": "every table over the listed key sets with each entry absent or one of the listed counts; per table: coverage / average_coverage "
                "for platforms=None and every non-empty subset, distance for every ordered pair, divergence, and (every 7th table) the lines printed by "
                "report.summary; non-trivial = total > 0 and >= 2 platforms",
        "families": sizes, "clustering_tables": len(base), "failing_cases": sum(r[2] for r in res),
        "distinct_outcomes_per_shard_sum": sum(r[4] for r in res), "platform_names": names3,
        "samples": [{"table": [[sorted(k), v] for k, v in base[1].items()], "divergence": str(r_div(base[1])), "coverage": str(r_cov(base[1]))}],
        "exhaustive": True,
    })
    rep.assumptions = ["oracle = exact rational arithmetic; floats compared to 1e-9 relative, printed values to the %.2f string of the exact value's float",
                       "NaN expected exactly when undefined: no lines, no platforms, < 2 platforms (divergence), empty union (distance)"]
    return rep


def replay(witness, kind=None):
    t = {frozenset(k): v for k, v in witness["table"]}
    names = sorted(r_platforms(t)) or ["a", "b"]
    while len(names) < 2:
        names.append("zz")
    bad = check_table(t, names)
    if str(witness.get("call", "")).startswith("history"):
        bad = check_history(t, names)
    hit = [b for b in bad if b[0] == witness.get("call")] or bad
    return {"violates": bool(hit), "detail": hit[:5]}
