"""C03 - macro definition and expansion conform to the C standard.

E: families of (macro table, invocation) pairs enumerated exhaustively:
   all bodies up to k phrases over a phrase alphabet (parameters, #param, ##, numbers, operators,
   recursive / mutual calls, __VA_ARGS__) x fixed invocation shapes; all balanced invocations up
   to a length bound x small tables; the examples of ISO C 6.10.3.5.
   Each table enters the real code both as `#define` (DirectiveParser) and as a -D string
   (macro_from_definition_string); MacroExpander.expand must produce the reference token
   sequence, and `#if <invocation>` must have the truth value gcc gives it.
Oracle: hide-set expander ref/expand.py AND gcc -E in batch; a case is judged only when gcc
prints no diagnostic and both agree (anything else is excluded / counted as oracle disagreement).
Expansion runs under a watchdog: a timeout is a violation ("expansion terminates").
"""
import itertools
import signal

from ..core import env, gcc, par, result, shrink
from ..core.result import Failure, Report, robust
from ..ref import expand as rx

ID = "C03"
NOT_CBI_TOKENS = {"++", "--", "->", "+=", "-=", "*=", "/=", "%=", "&=", "|=", "^=", "<<=", ">>=", "...", "<:", ":>", "<%", "%>", "%:"}
TIMEOUT_S = 5


# ------------------------------------------------------------------ universes
def strings(alpha, k):
    for n in range(0, k + 1):
        for p in itertools.product(alpha, repeat=n):
            yield " ".join(p)


def fam1(k):
    P = ["x", "y", "#x", "##", "1", "k", "+", "(x)", ",", "F(x,y)"]
    inv = ["F(1,2)", "F(a b, )", "F(,)", "F((1,2),3)", "F(F(1,2),3)", "F (1,2)", "F", "F(1,2)(3,4)", "F(F,F)",
           'F("s" , \'c\')', "F(a  +  b, k)", "F(1,2) F(3,4)"]
    for b in strings(P, k):
        for i in inv:
            yield ([f"F(x,y) {b}"], i)


def fam1b(k):
    """longer bodies over a reduced alphabet: a plain use of a parameter followed by a ## use of the same one, nested self calls"""
    P = ["x", "y", "##", "1", "k", "+"]
    inv = ["F(1,2)", "F(F(1,2),3)", "F(A,2)", "F(F(A,A),F(1,2))", "F(,)", "F(G LP 5), 2)", "F(F,1)(2,3)", "F(B,2)", "F(B,B)", "F(2,B) + F(B,2)"]
    for b in strings(P, k):
        if len(b.split()) < 3:
            continue
        for i in inv:
            # B: an object-like macro whose expansion is a call of F itself (pre-expansion of an argument B differs from rescanning it inside F)
            yield ([f"F(x,y) {b}", "A 1 A", "G(z) z F", "LP (", "B F(1,2)"], i)


def fam2(k, small):
    PF = ["x", "#x", "##", "1", "+", "G", "G(x)", "F(x)", "F"]
    PG = ["y", "#y", "##", "2", "+", "F", "F(y)", "G(y)", "G"]
    if small:
        PF = ["x", "##", "1", "G", "G(x)", "F(x)"]
        PG = ["y", "##", "2", "F", "F(y)", "G(y)"]
    inv = ["F(1)", "G(1)", "F(G(1))", "F(F(1))", "G (1)", "F(G)(2)", "G(F)(3)", "F()"]
    for bf in strings(PF, k):
        for bg in strings(PG, k):
            for i in inv:
                yield ([f"F(x) {bf}", f"G(y) {bg}"], i)


def fam3(k):
    PA = ["A", "B", "1", "+", "F(1)", "(B)", "F(A)"]
    PB = ["A", "B", "2", "+", "F(B)", "(A)"]
    # the same argument spelling pre-expanded inside and outside the expansion of A within one directive
    inv = ["A", "B", "A B", "A + B", "F(A)", "F(B)", "A + F(A)", "F(A) + A", "F(A) F(B) F(A)"]
    for ba in strings(PA, k):
        for bb in strings(PB, k):
            for i in inv:
                yield ([f"A {ba}", f"B {bb}", "F(x) x + A"], i)


def fam4(k):
    heads = [("F(...)", ["__VA_ARGS__", "#__VA_ARGS__", "##", ",", "1"]),
             ("F(x,...)", ["__VA_ARGS__", "x", "#__VA_ARGS__", "##", ",", "1"]),
             ("F(x,y...)", ["y", "x", "#y", "##", ",", "1"])]
    # k is an object-like macro: a variable argument that names it is pre-expanded for __VA_ARGS__ but not for #__VA_ARGS__ / ##
    inv = ["F()", "F(1)", "F(1,2)", "F(1,2,3)", "F(,)", "F((1,2),3)", "F(a b , c)", "F(k)", "F(k,2)", "F(1,k,k)",
           # a nested call of the same macro in a variable argument that is not the last one (rescanning cannot make up for a missing pre-expansion)
           "F(1,F(2,3),4)", "F(F(1),2)"]
    for h, P in heads:
        for b in strings(P, k):
            for i in inv:
                yield ([f"{h} {b}", "k 7"], i)


def balanced(alpha, n):
    for k in range(1, n + 1):
        for p in itertools.product(alpha, repeat=k):
            d = 0
            ok = True
            for t in p:
                if t == "(":
                    d += 1
                elif t == ")":
                    d -= 1
                    if d < 0:
                        ok = False
                        break
            if ok and d == 0:
                yield " ".join(p)


TABLES5 = [
    ["F(x) x", "G(y) F", "A 1"], ["F(x) G", "G(y) y", "A F"], ["F(x) x A", "G(y) F(y)", "A G"], ["F(x) #x", "G(y) y ## y", "A (1)"],
    ["F(x,y) x y", "G() F", "A F(1,"], ["F(x) F(x)", "G(y) G", "A A"], ["F(x) G(x)", "G(y) F(y)", "A G(1)"], ["F(x) (x)", "G(y) F (y)", "A F"],
    ["F(...) __VA_ARGS__", "G(y) F(y,y)", "A G"], ["F(x,y) y x", "G(y) y(1,2)", "A F"], ["F() 1", "G(y) F y", "A ()"], ["F(x) x(1)", "G(y) y", "A G"],
]


def fam5(n):
    alpha = ["F", "G", "A", "(", ")", ",", "1", "a b"]
    invs = list(balanced(alpha, n))
    for t in TABLES5:
        if any(d.count("(") != d.count(")") for d in t):
            continue
        for i in invs:
            yield (t, i)


SHAPES = ["1e+5", "1E-5x", "0x1p+3", "0x1P-3", "1.5", ".5", "5.", "1.e+3f", "0x1F", "017", "1u", "1UL", "12_3", "1e+e", "1.2.3", "0xe+1", "e+1", "1 e+5",
          "'a'", "'\\n'", "\"s t\"", "\"a\\\"b\"", "<<", ">>", "<=", ">=", "==", "!=", "&&", "||", "!", "~", "^", "&", "|", "%", "?", ":", "_a1", "a.b", "x1e+5"]


def fam6():
    """lexical shapes: every token class of the lexer (pp-numbers with exponents, literals, operators) as a macro argument:
    identity, stringification, pasting and a neighbour that must not merge with it"""
    for t in SHAPES:
        for inv in (f"S({t})", f"I({t})", f"I({t}) e", f"C({t},1)", f"C(1,{t})", f"I({t}{t})", f"S({t} {t})", f"S(-{t})"):
            yield (["S(x) #x", "I(x) x", "C(x,y) x ## y", "e 7"], inv)


XS = ["C(a,b)", "k+C(a,b)", "k+ C(a,b)", "C(a,b)+k", "C(a, b) +k", "I(a)I(b)", "I( a )", "C(a,b)C(c,d)", "k C( a , b )", "(C(a,b))", "I()+I()", "-I(-1)", "I(I(k)+k)",
      "C(,b)", "C(a,)", "C(,)+k", "k+A", "k +A", "A+k", "(A)", "A A", "-A", "I(A)", "I(+A)", "I(A+)", "C(A,A)", "E+k", "k+E+k", "k E k", "I(E)+k", "P(a)", "+P(a)", "P( a )+k",
      "k+G", "G+k", "I(G)(1)", "k+G(1)", "G (1) +k", "V(a,b)", "k+V( a , b )", "V()+k", "T(a)", "k+T(a)",
      "D(a,b)", "D( a,b)", "k+D( a , b )", "D(,b)", "D( a,)", "D(I( a ),b)",
      # multi-token operands next to an empty one
      "D(,b c)", "C(,b c)", "D(a b,)", "C(a b,)+k", "D( a b , c d )", "D(, b c)"]


def fam7():
    """white-space fidelity: the text handed to # after full expansion (the xstr idiom).  Spacing in front of the first token
    of every kind of replacement (object-like, function-like, pasted, empty, argument, variadic, stringified) is inherited
    from the macro name it replaces, never from the definition."""
    defs = ["S(x) #x", "X(x) S(x)", "C(x,y) x ## y", "I(x) x", "k 7", "A 1", "E", "P(x) + x", "G I", "V(...) __VA_ARGS__", "T(x) # x", "D(x,y) (x ## y)-x"]
    for t in XS:
        yield (defs, f"X({t})")
        yield (defs, f"X( {t} )")
        yield (defs, f"X(k {t})")


STD = [   # ISO C 6.10.3.5 examples 3, 4, 5, 7 (each judged in its own gcc run)
    (["x 3", "f(a) f(x * (a))", "g f", "z z[0]", "h g(~", "m(a) a(w)", "w 0,1", "t(a) a", "p() int", "q(x) x", "r(x,y) x ## y", "str(x) # x"],
     ["f(y+1) + f(f(z)) % t(t(g)(0) + t)(1);", "g(x+(3,4)-w) | h 5) & m (f)^m(m);", "p() i[q()] = { q(1), r(2,3), r(4,), r(,5), r(,) };",
      "char c[2][6] = { str(hello), str() };"]),
    (["str(s) # s", "xstr(s) str(s)", "debug(s, t) printf(\"x\" # s \"= %d, x\" # t \"= %s\", x ## s, x ## t)", "INCFILE(n) vers ## n",
      "glue(a, b) a ## b", "xglue(a, b) glue(a, b)", "HIGHLOW \"hello\"", "LOW LOW \", world\""],
     ["debug(1, 2);", "fputs(str(strncmp(\"abc\\0d\", \"abc\", '\\4') == 0) str(: @\\n), s);", "xstr(INCFILE(2).h)", "glue(HIGH, LOW);", "xglue(HIGH, LOW)"]),
    (["t(x,y,z) x ## y ## z"], ["int j[] = { t(1,2,3), t(,4,5), t(6,,7), t(8,9,), t(10,,), t(,11,), t(,,12), t(,,) };"]),
    (["debug(...) fprintf(stderr, __VA_ARGS__)", "showlist(...) puts(#__VA_ARGS__)", "report(test, ...) ((test)?puts(#test): printf(__VA_ARGS__))"],
     ["debug(\"Flag\");", "debug(\"X = %d\\n\", x);", "showlist(The first, second, and third items.);", "report(x>y, \"x is %d but y is %d\", x, y);"]),
    (["f(a) a*g", "g(a) f(a)"], ["f(2)(9)"]),
    (["AA BB", "BB AA"], ["AA BB AA"]),
    (["foo() bar", "bar() foo"], ["foo()()()()", "foo () ()"]),
    (["EMPTY", "LPAREN (", "RPAREN )", "F(x, y) x + y", "ELLIP_FUNC(...) __VA_ARGS__"], ["ELLIP_FUNC(F, LPAREN, 'a', 'b', RPAREN);", "F EMPTY (1,2)"]),
]


def fam_std():
    for defs, invs in STD:
        for i in invs:
            yield (defs, i)


# ------------------------------------------------------------------ the real code
class _Timeout(Exception):
    pass


def _alarm(signum, frame):
    raise _Timeout()


def _spell(tok):
    from codebasin import preprocessor as pp

    if isinstance(tok, pp.CharacterConstant) and not str(tok).startswith("'"):
        return "'" + str(tok.token) + "'"
    return str(tok)


def cbi_expand(defs, inv, via):
    """(list of spellings, if_truth|('EXC',..)) or ('EXC', msg) / ('TIMEOUT',)"""
    from codebasin import platform, preprocessor as pp

    signal.signal(signal.SIGALRM, _alarm)
    signal.setitimer(signal.ITIMER_REAL, TIMEOUT_S)
    try:
        p = platform.Platform("p", "/")
        for d in defs:
            if via == "define":
                node = pp.DirectiveParser(pp.Lexer("#define " + d).tokenize()).parse()
                node.evaluate_for_platform(platform=p)
            else:
                name, _, body = d.partition(" ")
                if "(" in name and ")" not in name:      # parameter list containing blanks
                    head, _, body = d.partition(")")
                    name = head + ")"
                m = pp.macro_from_definition_string(f"{name}={body.strip()}")
                p.define(m.name, m)
        toks = pp.MacroExpander(p).expand(pp.Lexer(inv).tokenize())
        sp = [_spell(t) for t in toks]
        try:
            toks2 = pp.MacroExpander(p).expand(pp.Lexer(inv).tokenize())
            truth = bool(pp.ExpressionEvaluator(toks2).evaluate())
        except _Timeout:
            raise
        except Exception as e:  # noqa
            truth = ("EXC", f"{type(e).__name__}: {str(e)[:80]}")
        return (sp, truth)
    except _Timeout:
        return ("TIMEOUT",)
    except Exception as e:  # noqa
        return ("EXC", f"{type(e).__name__}: {str(e)[:100]}")
    finally:
        signal.setitimer(signal.ITIMER_REAL, 0)


def _norm(spellings):
    """Token spellings compared up to white space outside string literals (strings compared exactly)."""
    return [s for s in spellings]


def oracle(cases, single=False):
    """Per case: ('ok', tokens, if_value) | ('ill', why) | ('disagree', ref, gcc)"""
    if single:
        g = []
        for c in cases:
            g.extend(gcc.batch_expand([c]))
    else:
        g = gcc.batch_expand(cases)
        for i, r in enumerate(g):
            if r["text"] is None:           # swallowed by a neighbour: judge alone
                g[i] = gcc.batch_expand([cases[i]])[0]
    out = []
    for (defs, inv), r in zip(cases, g):
        try:
            ref = rx.expand_text(defs, inv)
        except rx.IllFormed as e:
            ref = ("ILL", str(e))
        except RecursionError:
            ref = ("ILL", "recursion")
        if r["diag"] or r["text"] is None:
            out.append(("ill", "gcc: %s" % (r["diag"][:1],)))
            continue
        gt = [t[0] for t in rx.lex(r["text"].replace("\n", " "))]
        if isinstance(ref, tuple):
            out.append(("disagree", ref, gt))
            continue
        if ref != gt:
            out.append(("disagree", ref, gt))
            continue
        if any(t in NOT_CBI_TOKENS for t in gt):
            out.append(("ill", "expansion contains a C token outside the #if vocabulary (e.g. ++ from + ## +)"))
            continue
        out.append(("ok", gt, r["if_value"]))
    return out


def compare(case, orc, via):
    """[] or [(kind, expected, observed)]"""
    defs, inv = case
    got = cbi_expand(defs, inv, via)
    if got[0] == "TIMEOUT":
        return [("timeout", orc[1], "no result within %ds" % TIMEOUT_S)]
    if got[0] == "EXC":
        return [("exception", orc[1], got[1])]
    sp, truth = got
    if sp != orc[1]:
        return [("tokens", orc[1], sp)]
    if orc[2] is not None and "," not in orc[1] and truth != orc[2]:    # comma is not a #if operator (C02)
        return [("if-truth", orc[2], truth if not isinstance(truth, tuple) else truth[1])]
    return []


def judge(case, via, single=False):
    o = oracle([case], single)[0]
    if o[0] != "ok":
        return None
    return compare(case, o, via)


def _cands(case):
    defs, inv = case
    # drop a macro; shorten a body; shorten the invocation (token-wise)
    for i in range(len(defs)):
        if len(defs) > 1:
            yield (defs[:i] + defs[i + 1:], inv)
    for i, d in enumerate(defs):
        head, _, body = d.partition(" ") if "(" not in d.split(" ")[0] or ")" in d.split(" ")[0] else (d[:d.index(")") + 1], " ", d[d.index(")") + 1:])
        bt = body.split()
        for j in range(len(bt)):
            yield (defs[:i] + [(head + " " + " ".join(bt[:j] + bt[j + 1:])).strip()] + defs[i + 1:], inv)
    it = inv.split()
    for j in range(len(it)):
        yield (defs, " ".join(it[:j] + it[j + 1:]))
    toks = [t[0] for t in rx.lex(inv)]
    for j in range(len(toks)):
        yield (defs, " ".join(toks[:j] + toks[j + 1:]))
    for j in range(len(toks)):
        for k in range(j + 2, min(len(toks), j + 4) + 1):
            yield (defs, " ".join(toks[:j] + toks[k:]))


def mk_failure(case, via, single=False):
    j = judge(case, via, single)
    if not j:
        return None
    kind = j[0][0]

    def first_failing(batch):
        cs = [(list(c[0]), c[1]) for c in batch]
        for i, (c, o) in enumerate(zip(cs, oracle(cs))):
            if o[0] == "ok":
                jj = compare(c, o, via)
                if jj and jj[0][0] == kind:
                    return i
        return None

    def dedup_cands(w):
        seen = set()
        for c in _cands(w):
            k = (tuple(c[0]), c[1])
            if k not in seen and k != (tuple(w[0]), w[1]):
                seen.add(k)
                yield c

    w = shrink.minimize_batch((list(case[0]), case[1]), dedup_cands, first_failing)
    jj = judge(w, via, True)[0]
    return Failure(kind, {"defines": list(w[0]), "invocation": w[1], "via": via}, expected=jj[1], observed=jj[2],
                   original={"defines": list(case[0]), "invocation": case[1]})


# ------------------------------------------------------------------ workers
def _work(arg):
    cases, single = arg
    orc = oracle(cases, single)
    judged = ill = dis = 0
    fails = []
    outcomes = set()
    disex = []
    for c, o in zip(cases, orc):
        if o[0] == "ill":
            ill += 1
            continue
        if o[0] == "disagree":
            dis += 1
            if len(disex) < 3:
                disex.append((c, o[1], o[2]))
            continue
        judged += 1
        outcomes.add(tuple(o[1]))
        for via in ("define", "dash-D"):
            if compare(c, o, via):
                fails.append((c, via))
    out = []
    seen = set()
    wit = lambda cv: {"defines": list(cv[0][0]), "invocation": cv[0][1], "via": cv[1]}  # noqa
    for f in result.shrink_within_budget(fails, lambda cv: robust(mk_failure, wit(cv), cv[0], cv[1], single), wit):
        if f.key() not in seen:
            seen.add(f.key())
            out.append(f)
    return len(cases), judged, ill, dis, len(fails), out, len(outcomes), disex


def _chunks(it, n):
    buf = []
    for x in it:
        buf.append(x)
        if len(buf) >= n:
            yield buf
            buf = []
    if buf:
        yield buf


def run(tier):
    rep = Report(ID, "exploration")
    if tier == "quick":
        fams = {"single F(x,y), bodies<=2": fam1(2), "F(x,y) bodies of 3..4 phrases over {x y ## 1 k +} + helper macros": fam1b(4), "F(x)+G(y), bodies<=2 (small alphabet)": fam2(2, True), "object-like A,B, bodies<=2": fam3(2),
                "variadic, bodies<=2": fam4(2), "balanced invocations<=4 x 11 tables": fam5(4), "lexical shapes x 8 uses": fam6(), "xstr(...) white-space fidelity": fam7()}
    else:
        fams = {"single F(x,y), bodies<=3": fam1(3), "F(x,y) bodies of 3..5 phrases over {x y ## 1 k +} + helper macros": fam1b(5), "F(x)+G(y), bodies<=2": fam2(2, False), "object-like A,B, bodies<=3 (k=2 for B)": fam3(2),
                "variadic, bodies<=3": fam4(3), "balanced invocations<=5 x 11 tables": fam5(5), "lexical shapes x 8 uses": fam6(), "xstr(...) white-space fidelity": fam7()}
    # seed-selected extension: fam1 bodies of length 3 starting with a seed-chosen phrase
    P = ["x", "y", "#x", "##", "1", "k", "+", "(x)", ",", "F(x,y)"]
    first = P[env.SEED % len(P)]
    ext = [([f"F(x,y) {first} {a} {b}"], i) for a in P for b in P for i in ("F(1,2)", "F(,)", "F(F(1,2),3)", "F(a b, )")]
    jobs = []
    sizes = {}
    for name, gen in fams.items():
        cs = list(gen)
        sizes[name] = len(cs)
        jobs += [(c, False) for c in _chunks(cs, 1500)]
    sizes["extension: F(x,y) bodies '%s * *'" % first] = len(ext)
    jobs += [(c, False) for c in _chunks(ext, 1500)]
    std = list(fam_std())
    sizes["ISO C 6.10.3.5 examples"] = len(std)
    jobs.append((std, True))
    res = par.pmap(_work, jobs)
    for r in res:
        rep.add(r[5])
    total = sum(r[0] for r in res)
    judged = sum(r[1] for r in res)
    rep.coverage.update({
        "evaluations": total * 2, "distinct_nontrivial": judged,
        "rule": "families of (macro table, invocation) pairs enumerated exhaustively (sizes below); each pair runs twice on the real code "
                "(#define path and -D path); non-trivial = gcc -E accepts the pair without diagnostic and agrees with the reference expander",
        "families": sizes, "pairs": total, "judged": judged, "illformed_excluded": sum(r[2] for r in res),
        "oracle_disagreements_excluded": sum(r[3] for r in res), "oracle_disagreement_examples": [x for r in res for x in r[7]][:6],
        "failing_cases": sum(r[4] for r in res), "distinct_expected_expansions_per_shard_sum": sum(r[6] for r in res),
        "samples": [{"defines": c[0], "invocation": c[1]} for c in (ext[5], std[0], std[9])],
        "exhaustive": True,
    })
    rep.assumptions = ["oracle: hide-set expander (ref/expand.py) and gcc -E must agree; pairs gcc diagnoses are excluded",
                       "token spellings compared; white space only inside string literals produced by #",
                       "watchdog %ds per expansion" % TIMEOUT_S]
    return rep


def replay(witness, kind=None):
    case = (witness["defines"], witness["invocation"])
    j = judge(case, witness["via"], True)
    return {"violates": bool(j), "well_formed": j is not None, "detail": j, "cbi": cbi_expand(case[0], case[1], witness["via"])}
