"""C12 - compiler emulation: aliases, implicit options, modes and passes.

E/A  built-in definitions: every documented flag combination of gcc/g++/clang/clang++/icx/icpx/nvcc
     against expectations pinned here from compiler documentation (editing a .toml is detected).
E/B  every alias graph over three user compilers (alias_of in {none, k1, k2, k3, gcc, dangling}):
     transitive resolution; loops / unknown targets reported, not hanging, not crashing.
E/C  user configurations: every subset of a rule pool (append_const -> modes / passes / defines,
     store_split, extend_match with override on/off) x implicit option sets x command lines;
     oracle = reference semantics below, plus the metamorphic identity
     "implicit options == the same options appended to the command line".
S    call-history BFS: sequences of <= 3 parse_args calls on one loaded configuration; each call
     must return what it returns on a freshly loaded configuration (state key = deep snapshot
     of config._compilers).
E/E  end-to-end: load_database yields one entry per pass and a guarded line is attributed iff
     some pass defines its guard.
"""
import itertools
import json
import logging
import os
import re
import signal

from ..core import env, par, shrink
from ..core.result import Failure, Report

ID = "C12"


class _Timeout(Exception):
    pass


def _alarm(s, f):
    raise _Timeout()


# ------------------------------------------------------------------ driving the real code
def load(cfg_text, workdir):
    """Fresh process-wide compiler table from the built-ins + this .cbi/config (None = no file)."""
    from codebasin import config

    os.makedirs(os.path.join(workdir, ".cbi"), exist_ok=True)
    p = os.path.join(workdir, ".cbi", "config")
    if cfg_text is None:
        if os.path.exists(p):
            os.unlink(p)
    else:
        with open(p, "w") as f:
            f.write(cfg_text)
    os.chdir(workdir)
    config._compilers = None
    env.capture.records.clear()


def parse(name, argv):
    """{pass: (sorted defines, sorted include_paths, sorted include_files)} + log records, or ('EXC', ..)"""
    from codebasin import config

    signal.signal(signal.SIGALRM, _alarm)
    signal.setitimer(signal.ITIMER_REAL, 5)
    env.capture.records.clear()
    try:
        cfgs = config.ArgumentParser(name).parse_args(list(argv))
    except _Timeout:
        return ("EXC", "timeout")
    except BaseException as e:  # noqa
        return ("EXC", f"{type(e).__name__}: {str(e)[:100]}")
    finally:
        signal.setitimer(signal.ITIMER_REAL, 0)
    out = {}
    dup = False
    for c in cfgs:
        if c.pass_name in out:
            dup = True
        out[c.pass_name] = (sorted(c.defines), sorted(c.include_paths), sorted(c.include_files))
    logs = [(r.levelname, r.getMessage()) for r in env.capture.records if r.levelno >= logging.WARNING]
    if dup:
        return ("EXC", "two configurations for one pass")
    return (out, logs)


# ------------------------------------------------------------------ A: built-ins pinned from documentation
SYCL_T = {"spir64": ["__SYCL_DEVICE_ONLY__", "__SPIR__", "__SPIRV__"], "spir64_x86_64": ["__SYCL_DEVICE_ONLY__", "__SPIR__", "__SPIRV__"],
          "spir64_gen": ["__SYCL_DEVICE_ONLY__", "__SPIR__", "__SPIRV__"], "spir64_fpga": ["__SYCL_DEVICE_ONLY__", "__SPIR__", "__SPIRV__"],
          "nvptx64-nvidia-cuda": ["__SYCL_DEVICE_ONLY__", "__NVPTX__"]}
ARCHS = [70, 75, 80, 89, 90]


def builtin_cases(tier):
    cases = []
    for name in ("gcc", "g++", "/opt/bin/gcc"):
        for omp in (0, 1):
            argv = ["-fopenmp"] * omp + ["-DU", "t.c"]
            cases.append((name, argv, {"default": ["U"] + ["_OPENMP"] * omp}))
    for name in ("clang", "clang++"):
        for omp, dev in itertools.product((0, 1), repeat=2):
            argv = ["-fopenmp"] * omp + ["-fsycl-is-device"] * dev + ["t.c"]
            cases.append((name, argv, {"default": ["_OPENMP"] * omp + ["__SYCL_DEVICE_ONLY__"] * dev}))
    tg = list(SYCL_T)
    subsets = [list(c) for r in range(0, len(tg) + 1) for c in itertools.combinations(tg, r)]
    for name in ("icx", "icpx"):
        for omp, sycl in itertools.product((0, 1), repeat=2):
            for sub in subsets:
                orders = [sub, sub[::-1]] if len(sub) > 1 and tier == "thorough" else [sub]
                for o in orders:
                    argv = ["-fopenmp"] * omp + ["-fsycl"] * sycl + ([f"-fsycl-targets={','.join(o)}"] if o else []) + ["t.cpp"]
                    exp = {"default": ["SYCL_LANGUAGE_VERSION"] * sycl + ["_OPENMP"] * omp}
                    for t in (o if o else ["spir64"]):
                        exp["sycl-" + t] = SYCL_T[t] + ["SYCL_LANGUAGE_VERSION"]
                    cases.append((name, argv, exp))
    base = ["__NVCC__", "__CUDACC__"]
    forms = []
    for a in ARCHS:
        forms += [([f"--gpu-architecture=sm_{a}"], {a}), ([f"--gpu-architecture=compute_{a}"], {a}), (["--gpu-architecture", f"sm_{a}"], {a}),
                  ([f"-gencode=arch=compute_{a},code=sm_{a}"], {a}), (["-gencode", f"arch=compute_{a},code=[sm_{a},compute_{a}]"], {a})]
    for a, b in itertools.permutations(ARCHS, 2):
        forms += [([f"--gpu-architecture=compute_{a}", f"--gpu-code=sm_{a},sm_{b}"], {a, b}),
                  (["-gencode", f"arch=compute_{a},code=sm_{a}", "-gencode", f"arch=compute_{b},code=sm_{b}"], {a, b})]
    forms.append(([], {70}))
    for omp in (0, 1):
        for args, archs in forms:
            argv = ["-fopenmp"] * omp + args + ["t.cu"]
            exp = {"default": base + ["_OPENMP"] * omp}
            for a in archs:
                exp[f"sm_{a}"] = base + [f"__CUDA_ARCH__={a}0"]
            cases.append(("nvcc", argv, exp))
    return cases


def _check_builtin(arg):
    cases = arg
    d = env.fresh_dir("c12a")
    load(None, d)
    out = []
    for name, argv, exp in cases:
        got = parse(name, argv)
        e = {k: sorted(v) for k, v in exp.items()}
        if got[0] == "EXC":
            out.append(Failure("builtin-exception", {"compiler": name, "argv": argv}, expected=e, observed=got[1]))
            continue
        g = {k: v[0] for k, v in got[0].items()}
        if g != e or any(lv == "ERROR" for lv, _ in got[1]):
            out.append(Failure("builtin", {"compiler": name, "argv": argv}, expected=e, observed={"passes": g, "log": got[1]}))
    return len(cases), out


# ------------------------------------------------------------------ B: alias graphs
TARGETS = [None, "k1", "k2", "k3", "gcc", "ghost"]


def alias_cfg(graph):
    lines = []
    for k, t in zip(("k1", "k2", "k3"), graph):
        if t is None:
            lines += [f"[compiler.{k}]", f'options = ["-DFROM_{k.upper()}"]', ""]
        else:
            lines += [f"[compiler.{k}]", f'alias_of = "{t}"', ""]
    return "\n".join(lines)


def alias_expected(graph, k):
    """('ok', defines with -fopenmp) | ('loop',) | ('unknown',)"""
    g = dict(zip(("k1", "k2", "k3"), graph))
    seen = [k]
    cur = k
    while True:
        t = g.get(cur) if cur in g else None
        if cur == "gcc":
            return ("ok", ["_OPENMP"])
        if cur == "ghost":
            return ("unknown",)
        if t is None:
            return ("ok", [f"FROM_{cur.upper()}"])
        if t in seen:
            return ("loop",)
        seen.append(t)
        cur = t


def _check_alias(arg):
    graphs = arg
    d = env.fresh_dir("c12b")
    out = []
    n = 0
    for graph in graphs:
        load(alias_cfg(graph), d)
        for k in ("k1", "k2", "k3"):
            n += 1
            exp = alias_expected(graph, k)
            got = parse(k, ["-fopenmp", "t.c"])
            w = {"graph": dict(zip(("k1", "k2", "k3"), graph)), "compiler": k}
            if got[0] == "EXC":
                out.append(Failure("alias-exception", w, expected=list(exp), observed=got[1]))
                continue
            defs = got[0].get("default", (None,))[0]
            errs = [m for lv, m in got[1] if lv == "ERROR"]
            if exp[0] == "ok":
                if defs != sorted(exp[1]) or errs or set(got[0]) != {"default"}:
                    out.append(Failure("alias", w, expected=list(exp), observed={"passes": {p: v[0] for p, v in got[0].items()}, "errors": errs}))
            else:
                word = "loop" if exp[0] == "loop" else "unrecognized"
                if not any(word in m for m in errs) or defs != [] or set(got[0]) != {"default"}:
                    out.append(Failure("alias", w, expected=list(exp) + ["an ERROR record naming it, and an empty compiler"],
                                       observed={"passes": {p: v[0] for p, v in got[0].items()}, "errors": errs}))
    return n, out


# ------------------------------------------------------------------ C: user rules - reference semantics
RULES = {
    "m1": {"flags": ["-fm1"], "action": "append_const", "dest": "modes", "const": "m1"},
    "p1": {"flags": ["-fp1"], "action": "append_const", "dest": "passes", "const": "p1"},
    "def": {"flags": ["-fdef"], "action": "append_const", "dest": "defines", "const": "FROM_FLAG"},
    "targets": {"flags": ["-ftargets"], "action": "store_split", "sep": ",", "format": "t-$value", "dest": "passes", "default": ["t-a"]},
    "arch": {"flags": ["-farch", "--arch"], "action": "extend_match", "pattern": "x(\\d)", "format": "a$value", "dest": "passes", "default": ["a1"]},
    "inc": {"flags": ["-finc"], "action": "extend_match", "pattern": "[^:]+", "dest": "include_paths"},
    # a second pass-selecting extend_match rule with its own default (only explored together with "arch"): the
    # "first use replaces the default" state is per flag, not per destination
    "feat": {"flags": ["-ffeat"], "action": "extend_match", "pattern": "f(\\d)", "format": "f$value", "dest": "passes", "default": ["f1"]},
}
MODES = {"m1": {"defines": ["M1"], "include_paths": ["/m1"]}, "m2": {"defines": ["M2"], "include_files": ["m2.h"]}}
PASSES = {"p1": {"defines": ["P1"], "modes": ["m2"]}, "t-a": {"defines": ["TA"]}, "t-b": {"defines": ["TB"], "modes": ["m1"]},
          "f1": {"defines": ["F1"]}, "f2": {"defines": ["F2"], "modes": ["m1"]},
          "a1": {"defines": ["A1"]}, "a2": {"defines": ["A2"], "include_paths": ["/a2"]}, "a3": {"defines": ["A3"], "modes": ["m1", "m2"]}}
ARGS = [["-fm1"], ["-fp1"], ["-fdef"], ["-ftargets=a,b"], ["-ftargets=b"], ["-farch=x2"], ["-farch=x1x3"], ["--arch", "x2"], ["-finc=/q:/r"],
        ["-DU"], ["-unknown"], ["-I", "/i"], ["-ffeat=f2"], ["-D", "V"]]
OPTION_SETS = [[], ["-DIMPL"], ["-fm1"], ["-DIMPL", "-farch=x3"], ["-I", "/oi", "-D", "IMPL2"]]      # the last one: implicit options in two-token form


def toml_list(xs):
    return "[" + ", ".join(json.dumps(x) for x in xs) + "]"


def user_cfg(name, rules, override, options, extra=""):
    out = [f"[compiler.{name}]"]
    if options:
        out.append(f"options = {toml_list(options)}")
    out.append("")
    for r in rules:
        d = dict(RULES[r])
        if r in ("arch", "feat"):
            d["override"] = override
        out.append(f"[[compiler.{name}.parser]]")
        for k, v in d.items():
            if isinstance(v, list):
                out.append(f"{k} = {toml_list(v)}")
            elif isinstance(v, bool):
                out.append(f"{k} = {'true' if v else 'false'}")
            else:
                out.append(f"{k} = {json.dumps(v)}")
        out.append("")
    for m, d in MODES.items():
        out.append(f"[[compiler.{name}.modes]]")
        out.append(f'name = "{m}"')
        for k, v in d.items():
            out.append(f"{k} = {toml_list(v)}")
        out.append("")
    for p, d in PASSES.items():
        out.append(f"[[compiler.{name}.passes]]")
        out.append(f'name = "{p}"')
        for k, v in d.items():
            out.append(f"{k} = {toml_list(v)}")
        out.append("")
    return "\n".join(out) + extra


def ref_parse(rules, override, options, argv, base=None):
    """Reference semantics of one compiler definition (see DESIGN.md C12)."""
    ns = {"defines": [], "include_paths": [], "include_files": [], "modes": [], "passes": []}
    pflag = {}      # flag-specific pass lists (custom actions), keyed by the rule's first flag
    first_use = {}
    by_flag = {}
    for r in rules:
        d = RULES[r]
        for f in d["flags"]:
            by_flag[f] = (r, d)
        if d["action"] in ("store_split", "extend_match") and d["dest"] == "passes" and "default" in d:
            pflag[d["flags"][0]] = list(d["default"])
    if base:
        by_flag.update(base)
    toks = list(argv) + list(options)
    i = 0
    while i < len(toks):
        t = toks[i]
        flag, eq, val = t.partition("=")
        if t.startswith("-D") and len(t) > 2:
            ns["defines"].append(t[2:])
        elif t == "-D":
            i += 1
            ns["defines"].append(toks[i])
        elif t.startswith("-I") and len(t) > 2:
            ns["include_paths"].append(t[2:])
        elif t in ("-I", "-isystem"):
            i += 1
            ns["include_paths"].append(toks[i])
        elif t == "-include":
            i += 1
            ns["include_files"].append(toks[i])
        elif t in by_flag and by_flag[t][1]["action"] == "append_const":
            d = by_flag[t][1]
            ns[d["dest"]].append(d["const"])
        elif flag in by_flag and by_flag[flag][1]["action"] in ("store_split", "extend_match"):
            r, d = by_flag[flag]
            if not eq:
                i += 1
                val = toks[i]
            if d["action"] == "store_split":
                vals = val.split(d["sep"])
            else:
                vals = re.findall(d["pattern"], val)
            if "format" in d:
                vals = [d["format"].replace("$value", v) for v in vals]
            if d["dest"] == "passes":
                key = d["flags"][0]
                if d["action"] == "store_split":
                    pflag[flag] = vals
                    if flag != key:
                        pass
                elif override and r in ("arch", "feat") and not first_use.get(key):
                    pflag[key] = list(vals)
                    first_use[key] = True
                else:
                    pflag.setdefault(key, []).extend(vals)
            else:
                ns[d["dest"]].extend(vals)
        i += 1
    passes = set(ns["passes"]) | {p for v in pflag.values() for p in v} | {"default"}
    out = {}
    for p in passes:
        c = {k: list(ns[k]) for k in ("defines", "include_paths", "include_files")}
        if p == "default":
            modes = set(ns["modes"])
        else:
            if p not in PASSES:
                continue
            for k in c:
                c[k] += PASSES[p].get(k, [])
            modes = PASSES[p].get("modes", [])
        for m in modes:
            if m in MODES:
                for k in c:
                    c[k] += MODES[m].get(k, [])
        out[p] = (sorted(c["defines"]), sorted(c["include_paths"]), sorted(c["include_files"]))
    return out


def _check_rules(arg):
    combos, maxlen = arg
    d = env.fresh_dir("c12c")
    out = []
    n = 0
    cmds = [[]] + [list(itertools.chain(*s)) for k in range(1, maxlen + 1) for s in itertools.product(ARGS, repeat=k)]
    for rules, override, options in combos:
        load(user_cfg("kc", rules, override, options), d)
        res_impl = {}
        for argv in cmds:
            n += 1
            got = parse("kc", argv)
            exp = ref_parse(rules, override, options, argv)
            w = {"rules": list(rules), "override": override, "options": options, "argv": argv}
            if got[0] == "EXC":
                out.append(Failure("rules-exception", w, expected=exp, observed=got[1]))
                continue
            res_impl[tuple(argv)] = got[0]
            if got[0] != exp:
                out.append(Failure("rules", w, expected=exp, observed=got[0]))
        # metamorphic: implicit options == appended explicitly (same rules, no options)
        if options:
            load(user_cfg("kc", rules, override, []), d)
            for argv in cmds[:40]:
                n += 1
                got = parse("kc", list(argv) + list(options))
                if got[0] != "EXC" and tuple(argv) in res_impl and got[0] != res_impl[tuple(argv)]:
                    out.append(Failure("options-not-appended", {"rules": list(rules), "override": override, "options": options, "argv": argv},
                                       expected=got[0], observed=res_impl[tuple(argv)]))
    return n, out[:50]


# redefinition of a built-in extends it
def _check_extend(_):
    d = env.fresh_dir("c12x")
    out = []
    n = 0
    extra = user_cfg("gcc", ["def", "p1"], False, ["-DIMPL"])
    load(extra, d)
    for name in ("gcc", "g++"):
        for argv in ([], ["-fopenmp"], ["-fdef"], ["-fopenmp", "-fdef", "-fp1"], ["-fp1"]):
            n += 1
            got = parse(name, argv)
            exp = {"default": sorted(["IMPL"] + ["_OPENMP"] * ("-fopenmp" in argv) + ["FROM_FLAG"] * ("-fdef" in argv))}
            if "-fp1" in argv:
                exp["p1"] = sorted(["IMPL"] + ["FROM_FLAG"] * ("-fdef" in argv) + ["P1", "M2"])
            g = got[0] if got[0] == "EXC" else {k: v[0] for k, v in got[0].items()}
            if g != exp:
                out.append(Failure("builtin-extended", {"config": "gcc redefined with rules def,p1 and options -DIMPL", "compiler": name, "argv": argv}, expected=exp, observed=g if g != "EXC" else got[1]))
    # a user definition of a mode / pass whose name the built-in definition already has replaces it (with a warning)
    redef = "\n".join(['[[compiler.gcc.modes]]', 'name = "openmp"', 'defines = ["_OPENMP=201511"]', 'include_paths = ["/omp"]', "",
                       '[[compiler.icx.passes]]', 'name = "sycl-spir64"', 'defines = ["USER_SPIR"]', 'modes = ["sycl"]', "",
                       '[[compiler.nvcc.passes]]', 'name = "sm_70"', 'defines = ["__CUDA_ARCH__=700", "USER_SM70"]', ""])
    load(redef, d)
    cases = [("g++", ["-fopenmp"], {"default": (["_OPENMP=201511"], ["/omp"])}),
             ("gcc", [], {"default": ([], [])}),
             ("icpx", ["-fsycl"], {"default": (["SYCL_LANGUAGE_VERSION"], []), "sycl-spir64": (["SYCL_LANGUAGE_VERSION", "USER_SPIR"], [])}),
             ("icx", ["-fsycl-targets=spir64_gen"], {"default": ([], []), "sycl-spir64_gen": (sorted(SYCL_T["spir64_gen"] + ["SYCL_LANGUAGE_VERSION"]), [])}),
             ("nvcc", [], {"default": (["__CUDACC__", "__NVCC__"], []), "sm_70": (sorted(["__NVCC__", "__CUDACC__", "__CUDA_ARCH__=700", "USER_SM70"]), [])})]
    for name, argv, exp in cases:
        n += 1
        got = parse(name, argv)
        g = got[1] if got[0] == "EXC" else {k: (v[0], v[1]) for k, v in got[0].items()}
        e = {k: (sorted(v[0]), sorted(v[1])) for k, v in exp.items()}
        if g != e:
            out.append(Failure("builtin-redefined", {"config": "user .cbi/config redefines gcc mode 'openmp', icx pass 'sycl-spir64', nvcc pass 'sm_70'", "compiler": name, "argv": argv},
                               expected={k: list(v) for k, v in e.items()}, observed=g if isinstance(g, str) else {k: list(v) for k, v in g.items()}))
    # re-aliasing a name that is already an alias in the built-in files
    realias = "\n".join(['[compiler."g++"]', 'alias_of = "clang"', "", "[compiler.icpx]", 'alias_of = "mycc"', "", "[compiler.mycc]", 'alias_of = "nvcc"', ""])
    load(realias, d)
    for name, argv, exp in [("g++", ["-fsycl-is-device", "-fopenmp"], {"default": ["_OPENMP", "__SYCL_DEVICE_ONLY__"]}),
                            ("icpx", ["--gpu-architecture=sm_80"], {"default": ["__CUDACC__", "__NVCC__"], "sm_80": ["__CUDACC__", "__CUDA_ARCH__=800", "__NVCC__"]}),
                            ("icx", ["-fsycl"], {"default": ["SYCL_LANGUAGE_VERSION"], "sycl-spir64": sorted(SYCL_T["spir64"] + ["SYCL_LANGUAGE_VERSION"])})]:
        n += 1
        got = parse(name, argv)
        g = got[1] if got[0] == "EXC" else {k: v[0] for k, v in got[0].items()}
        if g != {k: sorted(v) for k, v in exp.items()}:
            out.append(Failure("builtin-alias-redefined", {"config": "user .cbi/config: g++ -> clang, icpx -> mycc -> nvcc", "compiler": name, "argv": argv}, expected=exp, observed=g))
    return n, out


# ------------------------------------------------------------------ S: call history
HIST_CFG_RULES = (("arch", "targets", "m1", "def"), False, ["-DIMPL"])
HIST_CALLS = [("kc", ("-farch=x2",)), ("kc", ("-farch=x3", "-fm1")), ("kc", ()), ("kc", ("-ftargets=b",)), ("nvcc", ("--gpu-architecture=sm_80",)),
              ("nvcc", ("-gencode", "arch=compute_90,code=sm_90")), ("nvcc", ()), ("icx", ("-fsycl-targets=spir64_gen",)), ("icx", ("-fsycl",)), ("g++", ("-fopenmp",))]


def snapshot():
    from codebasin import config

    def enc(x):
        if isinstance(x, dict):
            return {str(k): enc(v) for k, v in sorted(x.items(), key=lambda kv: str(kv[0]))}
        if isinstance(x, (list, tuple)):
            return [enc(v) for v in x]
        if hasattr(x, "__dict__") and not isinstance(x, type):
            return {k: enc(v) for k, v in sorted(vars(x).items())}
        return repr(x)

    return json.dumps(enc(config._compilers), sort_keys=True)


def _fresh_answers(d):
    ans = {}
    for c in HIST_CALLS:
        load(user_cfg("kc", *HIST_CFG_RULES), d)
        ans[c] = parse(c[0], list(c[1]))[0]
    return ans


def _same_object_history(_):
    """Several parse_args calls on ONE ArgumentParser object, and several entries for one compiler in ONE database:
    every call / entry must give what a fresh parser gives."""
    from codebasin import config

    d = env.fresh_dir("c12o")
    out = []
    n = 0
    calls = [("nvcc", ["-gencode", "arch=compute_80,code=sm_80"]), ("nvcc", ["--gpu-architecture=sm_90"]), ("nvcc", []), ("icx", ["-fsycl-targets=spir64_gen"]), ("icx", ["-fsycl"]),
             ("kc", ["-farch=x2"]), ("kc", ["-farch=x3"]), ("kc", [])]
    for override in (False, True):
        cfg = user_cfg("kc", ("arch", "targets", "m1"), override, ["-DIMPL"])
        fresh = {}
        for name, argv in calls:
            load(cfg, d)
            fresh[(name, tuple(argv))] = parse(name, argv)[0]
        for name in ("nvcc", "icx", "kc"):
            mine = [c for c in calls if c[0] == name]
            for seq in itertools.permutations(mine, 2):
                load(cfg, d)
                ap = config.ArgumentParser(name)
                for k, (_, argv) in enumerate(seq):
                    n += 1
                    try:
                        got = {c.pass_name: (sorted(c.defines), sorted(c.include_paths), sorted(c.include_files)) for c in ap.parse_args(list(argv))}
                    except Exception as e:  # noqa
                        got = f"{type(e).__name__}: {e}"
                    if got != fresh[(name, tuple(argv))]:
                        out.append(Failure("history-one-parser", {"compiler": name, "override": override, "calls on one ArgumentParser": [list(a) for _, a in seq[:k + 1]]},
                                           expected=fresh[(name, tuple(argv))], observed=got))
                        break
    # one database, several entries for the same compiler
    load(None, d)
    with open(os.path.join(d, "k.cu"), "w") as f:
        f.write("int k;\n")
    dbp = os.path.join(d, "db.json")
    ents = [["nvcc", "-gencode", "arch=compute_80,code=sm_80", "-c", "k.cu"], ["nvcc", "-gencode", "arch=compute_90,code=sm_90", "-c", "k.cu"], ["nvcc", "-c", "k.cu"],
            ["nvcc", "-gencode", "arch=compute_80,code=sm_80", "-c", "k.cu"]]
    with open(dbp, "w") as f:
        json.dump([{"file": "k.cu", "directory": d, "arguments": a} for a in ents], f)
    n += 1
    try:
        db = config.load_database(dbp, d)
        got = [sorted(e["pass_name"] for e in db[i:j]) for i, j in ((0, 2), (2, 4), (4, 6), (6, 8))] if len(db) == 8 else [e["pass_name"] for e in db]
    except Exception as e:  # noqa
        got = f"{type(e).__name__}: {e}"
    exp = [["default", "sm_80"], ["default", "sm_90"], ["default", "sm_70"], ["default", "sm_80"]]
    if got != exp:
        out.append(Failure("history-one-database", {"entries": ents}, expected=exp, observed=got))
    return n, out[:6]


def _hist_expand(arg):
    hist, fresh = arg
    d = env.fresh_dir("c12s")
    succ = {}
    fails = []
    for c in HIST_CALLS:
        load(user_cfg("kc", *HIST_CFG_RULES), d)
        for h in hist:
            parse(h[0], list(h[1]))
        got = parse(c[0], list(c[1]))[0]
        if got != fresh[c]:
            succ[c] = "VIOL"
            fails.append((list(hist) + [c], fresh[c], got))
        else:
            succ[c] = snapshot()
    return hist, succ, fails


def explore_history(depth):
    d = env.fresh_dir("c12s0")
    fresh = _fresh_answers(d)
    load(user_cfg("kc", *HIST_CFG_RULES), d)
    parse("kc", [])          # forces loading
    load(user_cfg("kc", *HIST_CFG_RULES), d)
    from codebasin import config
    config._load_compilers()
    init = snapshot()
    states = {init}
    frontier = [[]]
    transitions = 0
    fails = []
    samples = []
    lvl = 0
    while frontier and lvl < depth:
        lvl += 1
        res = par.pmap(_hist_expand, [(tuple(h), fresh) for h in frontier], chunksize=2)
        nxt = []
        for hist, succ, fl in res:
            fails.extend(fl)
            for c, s in succ.items():
                transitions += 1
                if s == "VIOL":
                    continue
                if s not in states:
                    states.add(s)
                    nxt.append(list(hist) + [c])
                    if len(samples) < 3:
                        samples.append({"history": [[x[0], list(x[1])] for x in list(hist) + [c]]})
        frontier = nxt
    return {"states": len(states), "transitions": transitions, "max_depth": lvl, "frontier_empty": not frontier, "samples": samples}, fails


# ------------------------------------------------------------------ E: end-to-end
def _check_e2e(_):
    from codebasin import CodeBase, config, finder

    d = env.fresh_dir("c12e")
    src = ["int always;", "#ifdef _OPENMP", "int omp;", "#endif", "#if defined(__CUDA_ARCH__) && __CUDA_ARCH__ >= 800", "int ampere;", "#endif",
           "#ifdef __SYCL_DEVICE_ONLY__", "int device;", "#endif", "#ifdef __NVPTX__", "int nvptx;", "#endif"]
    for fn in ("a.cpp", "b.cu"):
        with open(os.path.join(d, fn), "w") as f:
            f.write("\n".join(src) + "\n")
    cases = [
        (["g++", "-c", "a.cpp"], "a.cpp", 1, {1}), (["g++", "-fopenmp", "-c", "a.cpp"], "a.cpp", 1, {1, 3}),
        (["nvcc", "-c", "b.cu"], "b.cu", 2, {1}), (["nvcc", "--gpu-architecture=sm_80", "-c", "b.cu"], "b.cu", 2, {1, 6}),
        (["nvcc", "-gencode", "arch=compute_70,code=sm_70", "-gencode", "arch=compute_90,code=sm_90", "-fopenmp", "b.cu"], "b.cu", 3, {1, 3, 6}),
        (["icpx", "-fsycl", "a.cpp"], "a.cpp", 2, {1, 9}), (["icpx", "-fsycl", "-fsycl-targets=nvptx64-nvidia-cuda,spir64", "a.cpp"], "a.cpp", 3, {1, 9, 12}),
        (["clang++", "-fsycl-is-device", "a.cpp"], "a.cpp", 1, {1, 9}),
    ]
    # a user-defined pass that differs from the default pass in its forced include only (same defines, same include paths)
    with open(os.path.join(d, "pi.h"), "w") as f:
        f.write("#define FROM_PI\n")
    with open(os.path.join(d, "c.cpp"), "w") as f:
        f.write("int always;\n#ifdef FROM_PI\nint with_pi;\n#else\nint without_pi;\n#endif\n")
    user = "\n".join(["[compiler.picc]", "", "[[compiler.picc.parser]]", 'flags = ["-fpi"]', 'action = "append_const"', 'dest = "passes"', 'const = "pi"', "",
                      "[[compiler.picc.passes]]", 'name = "pi"', f'include_files = [{json.dumps(os.path.join(d, "pi.h"))}]', ""])
    cases.append((["picc", "-fpi", "-c", "c.cpp"], "c.cpp", 2, {1, 3, 5}, user))
    cases.append((["picc", "-c", "c.cpp"], "c.cpp", 1, {1, 5}, user))
    out = []
    for argv, fn, npasses, lines, *cfg in cases:
        load(cfg[0] if cfg else None, d)
        dbp = os.path.join(d, "db.json")
        with open(dbp, "w") as f:
            json.dump([{"file": fn, "arguments": argv, "directory": d}], f)
        try:
            db = config.load_database(dbp, d)
            st = finder.find(d, CodeBase(d), {"p": db})
            used = set()
            for node, pl in st.get_map(os.path.join(d, fn)).items():
                if "p" in pl and getattr(node, "lines", None) and type(node).__name__ == "CodeNode":
                    used.update(node.lines)
            got = (len(db), used)
        except Exception as e:  # noqa
            got = ("EXC", f"{type(e).__name__}: {e}")
        if got != (npasses, lines):
            out.append(Failure("end-to-end", {"argv": argv}, expected={"entries": npasses, "code_lines_used": sorted(lines)},
                               observed={"entries": got[0], "code_lines_used": sorted(got[1]) if isinstance(got[1], set) else got[1]}))
    return len(cases), out


# ------------------------------------------------------------------ entry points
def run(tier):
    rep = Report(ID, "model_checking")
    cwd = os.getcwd()
    try:
        bc = builtin_cases(tier)
        ra = par.pmap(_check_builtin, [bc[i:i + 60] for i in range(0, len(bc), 60)])
        graphs = list(itertools.product(TARGETS, repeat=3))
        rb = par.pmap(_check_alias, [graphs[i:i + 14] for i in range(0, len(graphs), 14)])
        names = [r for r in RULES if r != "feat"]
        subsets = [c for r in range(len(names) + 1) for c in itertools.combinations(names, r)]
        subsets += [c + ("feat",) for c in subsets if "arch" in c]
        combos = [(s, ov, o) for s in subsets for ov in ((False, True) if "arch" in s else (False,)) for o in OPTION_SETS]
        if tier == "quick":     # seed-selected extension: triples for a seed-chosen rule subset
            ext = [(subsets[(env.SEED * 11 + 5) % len(subsets)], bool(env.SEED % 2), OPTION_SETS[env.SEED % 4])]
            rc = par.pmap(_check_rules, [(combos[i:i + 6], 2) for i in range(0, len(combos), 6)] + [(ext, 3)])
        else:
            rc = par.pmap(_check_rules, [(combos[i:i + 2], 3) for i in range(0, len(combos), 2)])
        rx = _check_extend(None)
        ro = _same_object_history(None)
        rx = (rx[0] + ro[0], rx[1] + ro[1])
        re2e = _check_e2e(None)
        sinfo, sfail = explore_history(3 if tier == "quick" else 4)
    finally:
        os.chdir(cwd)
    for r in ra + rb + rc + [rx, re2e]:
        rep.add(r[1])
    seen = set()
    for hist, exp, got in sorted(sfail, key=lambda x: len(x[0])):
        # keep the shortest histories only (a longer one containing a failing shorter one adds nothing)
        key = json.dumps(hist[-2:] if len(hist) > 1 else hist)
        if key in seen:
            continue
        seen.add(key)
        rep.add([Failure("history", {"calls": [[c[0], list(c[1])] for c in hist], "config": "kc with rules arch(override=false),targets,m1,def"},
                         expected={"last call on a fresh configuration": exp}, observed=got)])
    nE = sum(r[0] for r in ra + rb + rc) + rx[0] + re2e[0]
    rep.coverage.update({
        "states": sinfo["states"], "transitions": sinfo["transitions"], "traces_validated_against_impl": sinfo["transitions"] + nE,
        "evaluations": nE + sinfo["transitions"], "distinct_nontrivial": len(bc) + len(graphs) * 3 + len(combos),
        "rule": "A: %d pinned built-in cases (all subsets of 5 SYCL targets x -fsycl x -fopenmp; all nvcc architecture forms, singles and ordered pairs); "
                "B: all %d alias graphs x 3 compilers; C: %d (rule subset, override, implicit options) configurations x all command lines of <=%d argument groups; "
                "S: BFS over parse_args call histories, state = deep snapshot of config._compilers" % (len(bc), len(graphs), len(combos), 2 if tier == "quick" else 3),
        "builtin_cases": len(bc), "alias_graphs": len(graphs), "rule_configurations": len(combos), "S": {k: v for k, v in sinfo.items() if k != "samples"},
        "samples": [{"compiler": bc[40][0], "argv": bc[40][1], "expected": bc[40][2]}] + sinfo["samples"],
        "exhaustive": bool(sinfo["frontier_empty"]),
    })
    rep.assumptions = ["built-in expectations pinned in this file from compiler documentation and the shipped definitions at the pinned commit (icx: a sycl-spir64 device pass by default; nvcc: sm_70 by default)",
                       "defines / paths compared as multisets per pass (order inside a pass is not part of the property)"]
    return rep


def replay(witness, kind=None):
    cwd = os.getcwd()
    d = env.fresh_dir("c12r")
    try:
        if "calls" in witness:
            fresh = _fresh_answers(d)
            hist = [(c[0], tuple(c[1])) for c in witness["calls"]]
            load(user_cfg("kc", *HIST_CFG_RULES), d)
            for h in hist[:-1]:
                parse(h[0], list(h[1]))
            got = parse(hist[-1][0], list(hist[-1][1]))[0]
            return {"violates": got != fresh[hist[-1]], "fresh": fresh[hist[-1]], "after_history": got}
        if "graph" in witness:
            g = tuple(witness["graph"][k] for k in ("k1", "k2", "k3"))
            n, out = _check_alias([g])
            return {"violates": bool(out), "detail": out}
        if "rules" in witness:
            load(user_cfg("kc", witness["rules"], witness["override"], witness["options"]), d)
            got = parse("kc", witness["argv"])
            exp = ref_parse(witness["rules"], witness["override"], witness["options"], witness["argv"])
            return {"violates": got[0] != exp, "expected": exp, "observed": got[0]}
        if "compiler" in witness:
            load(None, d)
            return {"violates": None, "observed": parse(witness["compiler"], witness["argv"])}
        return {"violates": None}
    finally:
        os.chdir(cwd)
