"""C15 - each physical file is parsed and counted once, however it is reached.

E (differential): a canonical code base (3 translation units, 2 headers, 3 directories) decorated
at six alias sites - the spelling of a compiled file on two platforms, the -I option, a second
include of a #pragma-once header, the spelling of a nested include, extra links - each through
file links, directory links, './', 'x/../' and '//' segments; all combinations with <= 3 (quick) /
all (thorough) non-canonical sites.  Oracle: the same code base with every alias replaced by the
canonical path and the links removed: identical setmap, identical per-line attribution of the
physical files, one tree per physical file, links add nothing (also to the root and directory totals of cbi-tree), a link to outside is no member.
"""
import itertools
import os
import shutil

from ..core import codebase, env, par, shrink
from ..core.result import Failure, Report, robust

ID = "C15"

A_SPELL = ["src/a.c", "src/a_link.c", "srcl/a.c", "./src/./a.c", "src/../src/a.c", "lnk/a.c"]   # lnk/a.c: a link in *another* directory, beside a decoy h.h
I_SPELL = ["inc", "inc/.", "srcl/../inc", "./inc//"]
B_SECOND = [None, '#include "h.h"', '#include "h_link.h"', '#include "../inc/h.h"', '#include "../incl/h.h"']      # incl -> inc: the header itself is no link, its directory is
# "../cur/sub/g.h": `cur` is a directory link that points to src in some cases and to alt in others - the same spelled
# path names different physical files in different analyses of one process
G_SPELL = ["sub/g.h", "./sub/g.h", "sub/../sub/g.h", "../srcl/sub/g.h", "../cur/sub/g.h@src", "../cur/sub/g.h@alt"]
X_LINKS = ["none", "outside-link", "all-links-present"]
SITES = [A_SPELL, A_SPELL, I_SPELL, B_SECOND, G_SPELL, X_LINKS]
H = "#pragma once\n#ifndef SEEN\n#define SEEN\nint first;\n#else\nint second;\n#endif\n#ifdef A\nint ha;\n#endif\n"


def build(base, case, canonical):
    a1, a2, isp, b2, gsp, xl = case
    root = os.path.join(base, "root")
    shutil.rmtree(base, ignore_errors=True)
    os.makedirs(root)
    # the outside directory's name starts with the root's name: containment must be by path components, not by string prefix
    os.makedirs(os.path.join(base, "root-old"))
    with open(os.path.join(base, "root-old", "o.c"), "w") as f:
        f.write("int o;\n")
    second = B_SECOND[b2]
    if canonical and second is not None:
        second = '#include "h.h"'
    gopt = G_SPELL[gsp]
    if canonical:
        g = "../alt/sub/g.h" if gopt.endswith("@alt") else G_SPELL[0]
    else:
        g = gopt.split("@")[0]
    files = {
        "src/a.c": '#include "h.h"\nint a;\n#ifdef A\nint aa;\n#endif\n',
        "src/b.c": '#include "h.h"\n' + (second + "\n" if second else "") + f'#include "{g}"\nint b;\n',
        "lib/c.c": '#include "../src/sub/g.h"\nint c;\n',
        "inc/h.h": H,
        "src/sub/g.h": "int g;\n",
        "alt/sub/g.h": "int galt;\n#ifdef A\nint galt_a;\n#endif\n",
        "lnk/h.h": "int decoy;\n#define DECOY\n",      # must never be picked: a.c lives in src/, whatever it was called on the command line
        "inc/cfg.h.in": "int tmpl;\n@VALUE@\n",       # not a source file; a link named cfg.h may point to it (L6) and is then no member either
    }
    links = {}
    if not canonical:
        need = set()
        if "a_link" in A_SPELL[a1] or "a_link" in A_SPELL[a2]:
            need.add("L1")
        if "lnk/" in A_SPELL[a1] or "lnk/" in A_SPELL[a2]:
            need.add("L5")
        if "srcl" in A_SPELL[a1] + A_SPELL[a2] + I_SPELL[isp] + G_SPELL[gsp]:
            need.add("L3")
        if second and "h_link" in second:
            need.add("L2")
        if second and "incl/" in second:
            need.add("L7")
        if X_LINKS[xl] == "outside-link":
            need.add("L4")
        if X_LINKS[xl] == "all-links-present":
            need |= {"L1", "L2", "L3", "L4", "L5", "L6", "L7"}
        if "L1" in need:
            links["src/a_link.c"] = "a.c"
        if "L2" in need:
            links["inc/h_link.h"] = "h.h"
        if "L3" in need:
            links["srcl"] = "src"
        if "L4" in need:
            links["src/out.c"] = "../../root-old/o.c"
        if "L5" in need:
            links["lnk/a.c"] = "../src/a.c"
        if "L6" in need:
            links["inc/cfg.h"] = "cfg.h.in"
        if "L7" in need:
            links["incl"] = "inc"
        if "@" in gopt:
            links["cur"] = gopt.split("@")[1]
    codebase.write_tree(root, files, links)
    sp1 = A_SPELL[0] if canonical else A_SPELL[a1]
    sp2 = A_SPELL[0] if canonical else A_SPELL[a2]
    inc = I_SPELL[0] if canonical else I_SPELL[isp]
    plats = {
        "p1": [{"file": sp1, "args": ["-DA", "-I", inc]}, {"file": "src/b.c", "args": ["-I", inc]}],
        "p2": [{"file": "lib/c.c", "args": []}, {"file": sp2, "args": ["-I", inc]}],
    }
    return root, plats


def analyse(root, plats):
    from codebasin import CodeBase, finder

    codebase.write_analysis(root, plats)
    cfg = codebase.configuration(root, plats)
    cb = CodeBase(root)
    st = finder.find(root, cb, cfg)
    members = list(cb)
    rr = os.path.realpath(root)
    phys = {}
    for fn in st.get_filenames():
        rel = os.path.relpath(fn, rr)
        if rel.startswith(".."):
            continue
        m = st.get_map(fn)
        lines = {}
        for node in st.get_tree(fn).walk():
            for ln in getattr(node, "lines", None) or []:
                lines[ln] = frozenset(m[node])
        phys[rel] = lines
    trees = sorted(os.path.relpath(k, rr) for k in st.trees)
    from ..core import cli
    r = cli.run("tree", ["analysis.toml"], root)
    legend, nodes = cli.parse_tree(r["out"])
    nodes = [n for n in cli.tree_paths(nodes) if "raw" not in n]
    tree_root = (r["rc"], sorted(legend.values()), {k: nodes[0][k] for k in ("platforms", "sloc", "cov", "avg")} if nodes else None,
                 sorted(("/".join(n["path"]), n["sloc"], n["platforms"]) for n in nodes if n["is_dir"] and n["depth"] == 1 and not os.path.islink(os.path.join(root, *n["path"]))))
    return phys, dict(st.get_setmap(cb)), sorted(os.path.relpath(m, root) for m in members), trees, tree_root


def judge(base, case):
    try:
        root, plats = build(os.path.join(base, "canon"), case, True)
        catt, csm, cmembers, ctrees, ctree = analyse(root, plats)
        root, plats = build(os.path.join(base, "alias"), case, False)
        aatt, asm, amembers, atrees, atree = analyse(root, plats)
    except Exception as e:  # noqa
        return [("exception", "analysis succeeds", f"{type(e).__name__}: {e}")]
    bad = []
    if {k: v for k, v in asm.items() if v} != {k: v for k, v in csm.items() if v}:
        bad.append(("setmap", _sm(csm), _sm(asm)))
    in_root = {k: v for k, v in aatt.items()}
    if in_root != catt:
        d = [(rel, ln, sorted(catt.get(rel, {}).get(ln, ["<absent>"])), sorted(in_root.get(rel, {}).get(ln, ["<absent>"])))
             for rel in sorted(set(catt) | set(in_root)) for ln in sorted(set(catt.get(rel, {})) | set(in_root.get(rel, {})))
             if catt.get(rel, {}).get(ln) != in_root.get(rel, {}).get(ln)]
        bad.append(("attribution", "as with canonical paths", d[:8]))
    if len(atrees) != len(set(atrees)) or [t for t in atrees if not t.startswith("..")] != [t for t in ctrees if not t.startswith("..")]:
        bad.append(("trees", ctrees, atrees))
    if atree != ctree:
        bad.append(("tree-totals", ctree, atree))
    if any(m.endswith("out.c") for m in amembers):
        bad.append(("outside-link-member", "src/out.c -> outside is not part of the code base", amembers))
    return bad


def _sm(sm):
    return sorted(([sorted(k), v] for k, v in sm.items() if v), key=str)


def describe(case):
    a1, a2, isp, b2, gsp, xl = case
    return {"p1 compiles": A_SPELL[a1], "p2 compiles": A_SPELL[a2], "-I": I_SPELL[isp], "second include in b.c": B_SECOND[b2],
            "g.h included as": G_SPELL[gsp].replace("@", " with cur -> "), "extra links": X_LINKS[xl]}


def _work(cases):
    base = env.fresh_dir("c15")
    n = 0
    fails = []
    for case in cases:
        n += 1
        b = judge(base, case)
        if b:
            fails.append((case, b[0][0]))
    out = []
    seen = set()
    for case, kind in fails[:30]:
        def fl(c):
            return any(x[0] == kind for x in judge(base, c))

        def cands(c):
            for i in range(len(c)):
                if c[i] != 0:
                    yield c[:i] + (0,) + c[i + 1:]
        def mk():
            if not fl(tuple(case)):
                return None
            w = shrink.minimize(tuple(case), cands, fl)
            b = [x for x in judge(base, w) if x[0] == kind][0]
            return Failure(kind, {"case": list(w), "aliases": describe(w)}, expected=b[1], observed=b[2])
        f = robust(mk, {"case": list(case), "aliases": describe(case)})
        if f.key() not in seen:
            seen.add(f.key())
            out.append(f)
    shutil.rmtree(base, ignore_errors=True)
    return n, len(fails), out


def run(tier):
    rep = Report(ID, "exploration")
    allc = list(itertools.product(*[range(len(s)) for s in SITES]))
    if tier == "quick":
        cases = [c for c in allc if sum(1 for x in c if x) <= 3]
        # seed-selected extension: all cases with 4 aliased sites that fix two seed-chosen sites
        s1, s2 = env.SEED % 6, (env.SEED // 6 + 1 + env.SEED % 6) % 6
        cases += [c for c in allc if sum(1 for x in c if x) == 4 and c[s1] == 1 and (s2 == s1 or c[s2] == 1)]
    else:
        cases = allc
    res = par.pmap(_work, [cases[i:i + 40] for i in range(0, len(cases), 40)])
    for r in res:
        rep.add(r[2])
    n = sum(r[0] for r in res)
    rep.coverage.update({
        "evaluations": 2 * n, "distinct_nontrivial": n,
        "rule": "six alias sites with %s options; %s; every case analysed twice (aliased / canonical); distinct = alias combinations" % (
            [len(s) for s in SITES], "all combinations with <=3 non-canonical sites + a seed-chosen slice with 4" if tier == "quick" else "the full product"),
        "cases": n, "failing_cases": sum(r[1] for r in res),
        "samples": [describe(cases[len(cases) // 2]), describe(cases[-1])],
        "exhaustive": True,
    })
    rep.assumptions = ["differential oracle: the implementation on canonical paths is the reference; C01-C05 establish that reference against external truth"]
    return rep


def replay(witness, kind=None):
    base = env.fresh_dir("c15r")
    b = judge(base, tuple(witness["case"]))
    return {"violates": bool(b), "detail": [(k, str(e)[:300], str(o)[:600]) for k, e, o in b]}
