"""C14 - results are deterministic and independent of enumeration order.

S over iteration orders: the "schedule" is the order in which unordered things are iterated.
The explorer owns every such choice point instead of sampling hash seeds:
  * directory listings  - pathlib.Path._scandir is wrapped in the harness process;
  * hash-ordered sets   - the name `set` in codebasin.finder / report / config is bound to a set
                          subclass whose iteration order is chosen by the explorer;
  * platform order      - the [platform.*] tables of the analysis file are permuted.
A choice point is keyed by (site, elements): one consistent order per distinct collection, as a
real hash table / file system gives.  Deviation-bounded DFS: the default answer everywhere is
sorted order; a deviation is any other permutation (all k! for k <= 4, reversal / adjacent
transpositions / rotation above).  All executions with <= 1 (quick) / <= 2 (thorough) deviations
are run to completion.  Every execution of one input must give the same platform-set table,
metrics, per-line attribution, coverage export, duplicate groups and tree - content AND
serialisation (row / sibling / array order), since the property's observation points are stdout
and coverage.json.  A recorded schedule is replayed twice before a failure is believed.
Supplement (not deciding): real subprocesses under several PYTHONHASHSEED values.
"""
import contextlib
import itertools
import json
import os
import pathlib
import shutil

from ..core import cli, codebase, env, par
from ..core.result import Failure, Report

ID = "C14"


# ------------------------------------------------------------------ the scheduler
class Divergence(Exception):
    pass


def n_alt(k):
    if k < 2:
        return 1
    if k <= 4:
        n = 1
        for i in range(2, k + 1):
            n *= i
        return n
    return k + 2     # identity, reverse, rotation, k-1 adjacent transpositions


def permute(items, c):
    k = len(items)
    if c == 0:
        return list(items)
    if k <= 4:
        return list(list(itertools.permutations(items))[c])
    if c == 1:
        return list(reversed(items))
    if c == 2:
        return list(items[1:]) + [items[0]]
    i = c - 3
    out = list(items)
    out[i], out[i + 1] = out[i + 1], out[i]
    return out


class Sched:
    def __init__(self, prefix):
        self.prefix = list(prefix)
        self.trace = []
        self.memo = {}

    def choose(self, key, items, namer=None):
        namer = namer or _name
        items = sorted(items, key=namer)
        if len(items) < 2:
            return items
        k = (key, tuple(namer(x) for x in items))
        if k not in self.memo:
            idx = len(self.trace)
            n = n_alt(len(items))
            c = self.prefix[idx] if idx < len(self.prefix) else 0
            if c >= n:
                raise Divergence(f"choice {c} out of range at point {idx} ({key})")
            self.trace.append((str(key), len(items), n))
            self.memo[k] = c
        return permute(items, self.memo[k])


SCHED = None
CUR_ROOT = None


def _name(x):
    s = str(x)
    return s.replace(CUR_ROOT, "$ROOT") if CUR_ROOT else s


class _Listing:
    """What os.scandir returns, as far as pathlib uses it: an iterator that is also a context manager."""

    def __init__(self, entries):
        self._it = iter(entries)

    def __iter__(self):
        return self._it

    def __next__(self):
        return next(self._it)

    def __enter__(self):
        return self

    def __exit__(self, *a):
        return False

    def close(self):
        pass


def make_set(site, noarg_plain):
    class CSet(set):
        def __iter__(self):
            if SCHED is None:
                return set.__iter__(self)
            return iter(SCHED.choose(("set", site), list(set.__iter__(self))))

        def copy(self):
            return CSet(set.copy(self))

        def union(self, *o):
            return CSet(set.union(self, *o))

        def __or__(self, o):
            return CSet(set.__or__(self, o))

        def difference(self, *o):
            return CSet(set.difference(self, *o))

        def pop(self):
            # "an arbitrary element": the first one of the chosen iteration order
            for x in self:
                self.remove(x)
                return x
            raise KeyError("pop from an empty set")

        def __reduce__(self):
            return (set, (list(set.__iter__(self)),))

    def factory(*a):
        if not a and noarg_plain:
            return set()
        return CSet(*a)

    return factory


@contextlib.contextmanager
def hooks(sched):
    global SCHED
    from codebasin import config, finder, report

    orig = pathlib.Path._scandir

    def _scandir(self):
        with orig(self) as it:
            entries = list(it)
        if SCHED is not None:
            entries = SCHED.choose(("scandir", _name(self)), entries, namer=lambda e: e.name)
        return _Listing(entries)

    SCHED = sched
    pathlib.Path._scandir = _scandir
    finder.set = make_set("finder", True)
    report.set = make_set("report", False)
    config.set = make_set("config", False)
    # find_duplicates builds its groups with a set display ({first}), which the name hook cannot reach:
    # hand the groups to the printing code as controlled sets instead
    orig_fd = report.find_duplicates
    cset = make_set("report.duplicates", False)
    report.find_duplicates = lambda cb: [cset(m) for m in orig_fd(cb)]
    try:
        yield
    finally:
        SCHED = None
        pathlib.Path._scandir = orig
        report.find_duplicates = orig_fd
        for m in (finder, report, config):
            if "set" in vars(m):
                delattr(m, "set")


# ------------------------------------------------------------------ inputs
def inputs(tier):
    same = "int dup;\nint dup2;\n"
    same2 = "int eup;\nint eup2;\n"      # a second duplicate group of the same byte size
    I = []
    I.append({
        "name": "ties+duplicates",
        "files": {"a/x.c": "int x;\n", "a/y.c": "int y;\n", "a/z.c": "int z;\n#ifdef G\nint zg;\n#endif\n", "b/d1.c": same, "b/d2.c": same, "b/d3.c": same,
                  "c/e1.h": same2, "c/e2.h": same2, "top.c": '#include "c/e1.h"\nint t;\n'},
        "links": {},
        "platforms": {"cpu": [{"file": "a/x.c", "args": []}, {"file": "a/z.c", "args": []}, {"file": "top.c", "args": []}],
                      "gpu": [{"file": "a/y.c", "args": []}, {"file": "a/z.c", "args": ["-DG"]}],
                      "fpga": [{"file": "b/d1.c", "args": []}, {"file": "top.c", "args": []}]},
    })
    I.append({
        "name": "nested+links",
        "files": {"m.c": '#include "inc/h.h"\nint m;\n#ifdef A\nint ma;\n#endif\n#ifdef B\nint mb;\n#endif\n', "inc/h.h": "int h;\n#ifdef A\nint ha;\n#endif\n",
                  "inc/k.h": "int k;\n", "s/p.c": "int p;\n", "s/q.c": "int q;\n", "s/t/r.c": "int r;\n", "s/t/u.c": "int u;\n", "unused.c": "int un;\n",
                  # the same header name in two include directories which two platforms search in opposite order; pc compiles
                  # sel.c without any -I: <settings.h> is not found for it, and only for it
                  "ia/settings.h": "#define FROM_A\nint sa;\n", "ib/settings.h": "#define FROM_B\nint sb;\nint sb2;\n",
                  "ia/opts.h": "#define OPT_A\nint oa;\n", "ib/opts.h": "int ob;\nint ob2;\n#define OPT_B\n",      # the same, reached with the quote form
                  "sel.c": "#include <settings.h>\n#ifdef FROM_A\nint fa;\n#endif\n#ifdef FROM_B\nint fb;\n#endif\n"
                           "#include \"opts.h\"\n#ifdef OPT_A\nint oa_used;\n#endif\n#ifdef OPT_B\nint ob_used;\n#endif\n"},
        "links": {"s/lq.c": "q.c"},
        "platforms": {"pa": [{"file": "m.c", "args": ["-DA"]}, {"file": "s/p.c", "args": []}, {"file": "sel.c", "args": ["-Iia", "-Iib"]}],
                      "pb": [{"file": "m.c", "args": ["-DB"]}, {"file": "s/q.c", "args": []}, {"file": "sel.c", "args": ["-Iib", "-Iia"]}],
                      "pc": [{"file": "s/t/r.c", "args": []}, {"file": "sel.c", "args": []}], "pd": [{"file": "s/t/u.c", "args": []}, {"file": "m.c", "args": []}]},
    })
    I.append({
        "name": "compilers+passes",
        "files": {"k.cu": "int k;\n#if defined(__CUDA_ARCH__) && __CUDA_ARCH__ >= 800\nint amp;\n#endif\n#ifdef __CUDACC__\nint cc;\n#endif\n",
                  "o.cpp": "int o;\n#ifdef _OPENMP\nint omp;\n#endif\n#ifdef __SYCL_DEVICE_ONLY__\nint dev;\n#endif\n", "w.c": "int w;\n", "v.c": "int w;\n"},
        "links": {},
        "platforms": {"cuda": [{"file": "k.cu", "compiler": "nvcc", "args": ["--gpu-architecture=sm_70", "--gpu-code=sm_70,sm_80"]}, {"file": "w.c", "args": []}],
                      "sycl": [{"file": "o.cpp", "compiler": "icpx", "args": ["-fsycl", "-fopenmp", "-fsycl-targets=spir64,spir64_gen"]}, {"file": "v.c", "args": []}]},
    })
    banner = "/* shared\n * banner\n */\n"
    I.append({
        "name": "mixed-language",
        "files": {"shared.h": banner + "#ifdef SOLVER\n      x = 1\n#endif\n#define SHARED 1\n", "k.c": '#include "shared.h"\nint k;\n',
                  "f.F90": '#include "shared.h"\n      y = 2 ! c\n', "u.c": "int u;\n", "k/Vadd.c": "int v1;\n", "k/vadd.c": "int v2;\n", "k/VADD.c": "int v1;\n"},
        # a link whose extension belongs to another language family than its target
        "links": {"alias.F90": "shared.h"},
        "platforms": {"host": [{"file": "k.c", "args": []}], "solver": [{"file": "f.F90", "compiler": "gfortran", "args": ["-DSOLVER"]}],
                      "hybrid": [{"file": "f.F90", "compiler": "gfortran", "args": []}, {"file": "k.c", "args": []}, {"file": "u.c", "args": []}, {"file": "k/Vadd.c", "args": []}],
                      "lower": [{"file": "k/vadd.c", "args": []}]},
    })
    if tier == "thorough":
        I.append({
            "name": "five-in-a-dir",
            "files": {f"d/f{i}.c": f"int f{i};\n" for i in range(5)} | {"g.c": "int f0;\n", "h.c": "int f0;\n"},
            "links": {},
            "platforms": {f"p{i}": [{"file": f"d/f{i}.c", "args": []}] for i in range(5)},
        })
    return I


# ------------------------------------------------------------------ one execution
def execute(inp, prefix):
    """Runs the three front ends + in-process analysis under the schedule; returns (observation, trace)."""
    global CUR_ROOT
    root = env.fresh_dir("c14")
    CUR_ROOT = root
    try:
        codebase.write_tree(root, inp["files"], inp["links"])
        sched = Sched(prefix)
        names = sorted(inp["platforms"])
        order = sched.choose(("analysis-file", "platform order"), names)
        codebase.write_analysis(root, inp["platforms"], order=order)
        obs = {}
        with hooks(sched):
            from codebasin import CodeBase, finder, report

            r = cli.run("codebasin", ["-R", "summary", "-R", "duplicates", "analysis.toml"], root)
            obs["codebasin_rc"] = r["rc"]
            body = "\n".join(ln for ln in r["out"].splitlines() if not ln.startswith("Log file created"))
            obs["codebasin_stdout"] = body.replace(root, "$ROOT")
            r = cli.run("tree", ["analysis.toml"], root)
            obs["tree_rc"] = r["rc"]
            obs["tree_stdout"] = r["out"].replace(root, "$ROOT")
            first = names[0]
            r = cli.run("cov", ["compute", "-S", root, f"{first}.json", "-o", os.path.join(root, "cov.json")], root)
            obs["cov_rc"] = r["rc"]
            try:
                with open(os.path.join(root, "cov.json")) as f:
                    obs["coverage_json"] = f.read()
            except OSError:
                obs["coverage_json"] = None
            # in-process: setmap, attribution, metrics, duplicates
            cfg = codebase.configuration(root, order)
            cb = CodeBase(root)
            st = finder.find(root, cb, cfg)
            sm = st.get_setmap(cb)
            obs["setmap"] = sorted(([sorted(k), v] for k, v in sm.items()), key=str)
            att = codebase.attribution(st, root, set(cb))
            obs["attribution"] = {rel: {str(ln): sorted(ps) for ln, ps in sorted(lines.items())} for rel, lines in sorted(att.items())}
            obs["metrics"] = [repr(report.divergence(sm)), repr(report.coverage(sm)), repr(report.average_coverage(sm))]
            obs["distance"] = [[repr(report.distance(sm, a, b)) for b in names] for a in names]
            obs["dup_groups"] = sorted(sorted(os.path.relpath(str(p), root) for p in g) for g in report.find_duplicates(cb))
        return obs, sched.trace
    finally:
        shutil.rmtree(root, ignore_errors=True)


def content_view(obs):
    """Order-insensitive reading of the printed outputs (a difference here is a content difference)."""
    v = dict(obs)
    s = cli.parse_summary(obs["codebasin_stdout"])
    v["codebasin_stdout"] = {"rows": sorted((lbl, loc, pct) for _, loc, pct, lbl in s["rows"]), "metrics": s["metrics"],
                             "dups": _dup_groups(obs["codebasin_stdout"])}
    legend, nodes = cli.parse_tree(obs["tree_stdout"])
    v["tree_stdout"] = {"legend": legend, "rows": sorted((("/".join(n["path"]), n["platforms"], n["sloc"], n["cov"], n["avg"]) for n in cli.tree_paths(nodes) if "raw" not in n))}
    try:
        cov = json.loads(obs["coverage_json"]) if obs["coverage_json"] else None
        v["coverage_json"] = sorted(((e["file"], e["id"], sorted(e["used_lines"]), sorted(e["unused_lines"])) for e in cov)) if cov is not None else None
    except ValueError:
        pass
    return v


def _dup_groups(out):
    groups, cur = [], None
    for ln in out.splitlines():
        if ln.startswith("Match "):
            cur = []
            groups.append(cur)
        elif ln.startswith("- ") and cur is not None:
            cur.append(ln[2:])
    return sorted(sorted(g) for g in groups)


def serial_view(obs):
    """What is compared for serialisation: everything exactly as printed / written."""
    return dict(obs)


def _run(arg):
    ii, tier, prefix = arg
    inp = inputs(tier)[ii]
    try:
        obs, trace = execute(inp, prefix)
    except Divergence as e:
        return ("DIV", str(e), [])
    except Exception as e:  # noqa
        return ("EXC", f"{type(e).__name__}: {e}", [])
    return ("OK", obs, trace)


def _close(x, y):
    """Equal, where floats printed with repr() may differ in the last places (summation order)."""
    if x == y:
        return True
    if isinstance(x, list) and isinstance(y, list) and len(x) == len(y):
        return all(_close(a, b) for a, b in zip(x, y))
    if isinstance(x, str) and isinstance(y, str):
        try:
            a, b = float(x), float(y)
        except ValueError:
            return False
        return (a != a and b != b) or abs(a - b) <= 1e-12 * max(1.0, abs(a), abs(b))
    return False


def first_diff(a, b):
    for k in a:
        if a[k] != b.get(k):
            if k in ("metrics", "distance") and _close(a[k], b.get(k)):
                continue
            return k
    return None


def explore(ii, tier, bound):
    """Deviation-bounded search, level by level (level d = executions with exactly d deviations)."""
    base = _run((ii, tier, []))
    if base[0] != "OK":
        raise RuntimeError(f"default execution failed: {base[1]}")
    ref_obs, ref_trace = base[1], base[2]
    again = _run((ii, tier, []))
    if again[0] != "OK" or again[2] != ref_trace:
        raise RuntimeError("replaying the default schedule gave a different trace of choice points: uncontrolled nondeterminism in the harness")
    ref_c, ref_s = content_view(ref_obs), serial_view(ref_obs)
    if again[1] != ref_obs:
        # every source of ordering is owned by the schedule and both runs took the same choices: what differs is state that
        # the code under test carried from the first analysis into the second one in this process - itself a violation of
        # "results are deterministic" (the later levels would only compare against a poisoned reference)
        c2, s2 = content_view(again[1]), serial_view(again[1])
        k = first_diff(ref_c, c2)
        if k is not None:
            return 2, len(ref_trace), [([], "repeat-content:" + k, ref_c[k], c2[k])], 2, ref_trace
        k = first_diff(ref_s, s2)
        if k is not None:
            return 2, len(ref_trace), [([], "repeat-order:" + k, ref_s[k], s2[k])], 2, ref_trace
    level = [([], ref_trace)]
    executions = 1
    points = len(ref_trace)
    fails = []
    outcomes = {json.dumps(ref_s, sort_keys=True)}
    for d in range(1, bound + 1):
        jobs = []
        for prefix, trace in level:
            choices = list(prefix) + [0] * (len(trace) - len(prefix))
            for i in range(len(prefix), len(trace)):
                for alt in range(1, trace[i][2]):
                    jobs.append(choices[:i] + [alt])
        res = par.pmap(_run, [(ii, tier, p) for p in jobs], chunksize=1)
        nxt = []
        for p, r in zip(jobs, res):
            executions += 1
            if r[0] != "OK":
                fails.append((p, "harness-or-exception", r[1], None))
                continue
            obs, trace = r[1], r[2]
            points = max(points, len(trace))
            outcomes.add(json.dumps(serial_view(obs), sort_keys=True))
            c = content_view(obs)
            k = first_diff(ref_c, c)
            if k is not None:
                fails.append((p, "content:" + k, ref_c[k], c[k]))
                continue
            s = serial_view(obs)
            k = first_diff(ref_s, s)
            if k is not None:
                fails.append((p, "order:" + k, ref_s[k], s[k]))
                continue
            nxt.append((p, trace))
        level = nxt
    return executions, points, fails, len(outcomes), ref_trace


def confirm(ii, tier, prefix):
    """Replay the schedule twice: identical observations, else the failure is not believed (hard error)."""
    a = _run((ii, tier, prefix))
    b = _run((ii, tier, prefix))
    if a != b:
        raise RuntimeError(f"schedule {prefix} does not replay deterministically")
    return a


def hashseed_supplement(tier):
    """Real subprocesses under different PYTHONHASHSEED values and creation orders: every output must be one of
    the outputs of the explored (sorted-order) execution.  Not the deciding step."""
    inp = inputs(tier)[0]
    outs = set()
    n = 0
    for seed in (0, 1, 2, 3):
        for rev in (False, True):
            root = env.fresh_dir("c14s")
            files = dict(reversed(list(inp["files"].items()))) if rev else inp["files"]
            codebase.write_tree(root, files, inp["links"])
            codebase.write_analysis(root, inp["platforms"], order=sorted(inp["platforms"], reverse=rev))
            r = cli.run_subprocess("codebasin", ["-R", "summary", "-R", "duplicates", "analysis.toml"], root, hashseed=seed)
            body = "\n".join(ln for ln in r["out"].splitlines() if not ln.startswith("Log file created")).replace(root, "$ROOT")
            outs.add(body)
            n += 1
            shutil.rmtree(root, ignore_errors=True)
    return n, len(outs)


def run(tier):
    rep = Report(ID, "model_checking")
    bound = 1 if tier == "quick" else 2
    ins = inputs(tier)
    total_exec = 0
    total_points = 0
    outcomes = 0
    samples = []
    for ii, inp in enumerate(ins):
        ex, pts, fails, nout, ref_trace = explore(ii, tier, bound)
        total_exec += ex
        total_points += pts
        outcomes += nout
        samples.append({"input": inp["name"], "choice_points": [f"{k} ({n} elements, {a} orders)" for k, n, a in ref_trace]})
        seen = set()
        for prefix, kind, exp, got in sorted(fails, key=lambda f: (sum(1 for x in f[0] if x), len(f[0]))):
            if kind in seen:
                continue
            seen.add(kind)
            if kind.startswith("repeat-"):
                rep.add([Failure(kind, {"input": inp["name"], "schedule": "default, executed twice in one process"}, expected=_clip(exp), observed=_clip(got),
                                 note="the same input analysed twice with the same (sorted) orders gave different results: state carried from one analysis into the next")])
                continue
            chk = confirm(ii, tier, prefix)
            rep.add([Failure(kind, {"input": inp["name"], "schedule": prefix, "deviation_at": _describe(prefix, chk[2])},
                             expected=_clip(exp), observed=_clip(got), note="observation under the default (sorted) schedule vs under this schedule")])
    n_sub, sub_out = hashseed_supplement(tier)
    if sub_out > 1:
        rep.add([Failure("hashseed-supplement", {"input": ins[0]["name"]}, expected="one output for all PYTHONHASHSEED values / creation orders", observed=f"{sub_out} distinct outputs")])
    rep.coverage.update({
        "states": outcomes, "transitions": total_exec, "traces_validated_against_impl": total_exec,
        "evaluations": total_exec, "distinct_nontrivial": total_points,
        "rule": "deviation-bounded search over iteration orders (directory listings, sets of finder/report/config, platform order), bound %d, on %d inputs; "
                "every execution runs codebasin (summary+duplicates), cbi-tree, cbi-cov and the in-process analysis; distinct = choice points" % (bound, len(ins)),
        "deviation_bound": bound, "inputs": [i["name"] for i in ins], "distinct_serialised_outcomes": outcomes,
        "hashseed_supplement": {"subprocess_runs": n_sub, "distinct_outputs": sub_out},
        "samples": samples, "exhaustive": True,
    })
    rep.assumptions = ["choice points: Path._scandir, the name `set` in codebasin.finder/report/config, platform-table order; sets built by literals / comprehensions would escape (none in the anchored paths today; the subprocess supplement would notice)",
                       "one consistent order per distinct collection (as a real hash table or file system gives)",
                       "after the repair of CodeBase.__iter__ the order of duplicate groups is deterministic too and is compared"]
    return rep


def _describe(prefix, trace):
    return [f"{trace[i][0]} -> order #{c}" for i, c in enumerate(prefix) if c and i < len(trace)]


def _clip(x):
    s = x if isinstance(x, str) else json.dumps(x, default=str)
    return s if len(s) < 1500 else s[:1500] + " ..."


def replay(witness, kind=None):
    tier = "thorough"
    names = [i["name"] for i in inputs(tier)]
    ii = names.index(witness["input"])
    a = _run((ii, tier, []))
    b = _run((ii, tier, witness["schedule"]))
    if a[0] != "OK" or b[0] != "OK":
        return {"violates": True, "detail": [a[1] if a[0] != "OK" else None, b[1] if b[0] != "OK" else None]}
    k = first_diff(serial_view(a[1]), serial_view(b[1]))
    return {"violates": k is not None, "differs_in": k}
