"""C09 - code-base membership: extension, location, git-style exclude patterns.

E: one tree containing every feature of the quantifier (nested dirs, source / non-source
extensions, names with blanks and glob metacharacters, file links inside / to outside, a
directory link, a dangling link, a directory with a source-like name), queried under every
spelling (absolute, relative, with '..', through each link); pattern lists = every list of
length <= 2 (quick) / <= 3 over a sub-pool (thorough) over a pool of gitignore patterns.
Oracle: membership <=> resolves to an existing regular file with a recognised extension under
the root and `git check-ignore --no-index` does not ignore the resolved root-relative path.
"""
import itertools
import os
import shutil
import subprocess

from ..core import env, par, shrink
from ..core.result import Failure, Report, robust

ID = "C09"
GIT = shutil.which("git")

SRC_EXT = {".f90", ".F90", ".f", ".ftn", ".fpp", ".F", ".FOR", ".FTN", ".FPP", ".c", ".h", ".c++", ".cxx", ".cpp", ".cc", ".hpp", ".hxx",
           ".h++", ".hh", ".inc", ".inl", ".tcc", ".icc", ".ipp", ".cu", ".cuh", ".cl", ".s", ".S", ".asm"}

REAL_FILES = ["a.c", "b.h", "n.txt", "d/a.c", "d/e/b.c", "x y.c", "[z].c", "q?.c", "d/dir.c/in.c", "d/e/k.F90", "m.cxx.bak", "d/Makefile"]
# one file per recognised extension, and near misses that are not source files
REAL_FILES += [f"ext/s{i}{e}" for i, e in enumerate(sorted(SRC_EXT))]
REAL_FILES += ["ext/d/deep.c"]      # a directory named like the top-level `d`, one level down: `/d/` must not touch it, `d/` must
REAL_FILES += ["ext/n1.C", "ext/n2.H", "ext/n3.py", "ext/n4.f95", "ext/n5.c.in", "ext/n6.CPP", "ext/n7.for", "ext/n8.hpp~", "ext/c", "ext/.c"]
LINKS = {"lnk.c": "a.c", "out.c": "../outside/o.c", "old.c": "../root-old/o.c", "dl": "d", "dangling.c": "nowhere.c", "d/up.h": "../b.h",
         "tmpl.h": "ext/n5.c.in",      # a source-like name for a file that is not a source file
         "deep": "d/e"}                # a directory link whose target has another parent than the link: deep/.. is d, not the root

POOL = ["a.c", "/a.c", "*.c", "*.h", "d/", "/d/", "d", "e/", "d/e/", "d/e", "**/b.c", "d/**", "**/e/**", "d/*/b.c", "?.c", "q?.c", "q\\?.c",
        "[z].c", "\\[z\\].c", "[ab].c", "x y.c", "x*", "#a.c", "\\#a.c", "", "!a.c", "!d/a.c", "!d/e/b.c", "!*.c", "dir.c", "dir.c/", "*.txt",
        "a.c ", "**", "!d/", "!d/e/", "*", "!*/", "/*.c", "in.c", "*.F90"]
DIRS = ["d", "d/e", "d/dir.c", "ext/d"]
POOL3 = ["*.c", "d/", "!d/e/b.c", "!d/", "d/e", "!*.c", "**/b.c", "a.c", "/d/", "*", "!*/", "!d/e/"]


def make_tree(base):
    root = os.path.join(base, "root")
    for sib in ("outside", "root-old"):       # root-old: a sibling whose name merely *starts with* the root's name
        os.makedirs(os.path.join(base, sib))
        with open(os.path.join(base, sib, "o.c"), "w") as f:
            f.write("int o;\n")
    for rel in REAL_FILES:
        p = os.path.join(root, rel)
        os.makedirs(os.path.dirname(p), exist_ok=True)
        with open(p, "w") as f:
            f.write("int x;\n")
    for rel, tgt in LINKS.items():
        os.symlink(tgt, os.path.join(root, rel))
    return root


def queries(root):
    """(label, path as given to __contains__) - relative ones are relative to cwd == root"""
    q = []
    for rel in REAL_FILES + ["d/dir.c", "d", "nowhere.c", "d/e"]:
        q.append((f"abs:{rel}", os.path.join(root, rel)))
        q.append((f"rel:{rel}", rel))
    q += [("dotdot:a.c", "d/../a.c"), ("dotdot:d/e/b.c", "d/e/../e/b.c"), ("dot:d/a.c", "./d/./a.c"),
          ("link:lnk.c", "lnk.c"), ("abslink:lnk.c", os.path.join(root, "lnk.c")), ("link:out.c", "out.c"), ("link:dangling.c", "dangling.c"),
          ("dirlink:dl/a.c", "dl/a.c"), ("dirlink:dl/e/b.c", os.path.join(root, "dl/e/b.c")), ("link:d/up.h", "d/up.h"),
          ("out:outside/o.c", os.path.join(root, "..", "outside", "o.c")), ("sib:root-old/o.c", os.path.join(root, "..", "root-old", "o.c")),
          ("sibdotdot:root-old/o.c", "d/../../root-old/o.c"), ("link:old.c", "old.c"), ("dirlink:dl/dir.c", "dl/dir.c"), ("link:tmpl.h", "tmpl.h"), ("abslink:tmpl.h", os.path.join(root, "tmpl.h")),
          ("linkdotdot:deep/../dir.c/in.c", "deep/../dir.c/in.c"), ("linkdotdot:deep/../b.h", "deep/../b.h"), ("linkdotdot:deep/../a.c", os.path.join(root, "deep/../a.c")),
          ("linkdotdot:deep/../../a.c", "deep/../../a.c")]
    return q


def git_ignored(base, lists, files=None, dirs=None):
    """For every pattern list: set of REAL_FILES paths that git ignores (patterns relative to the tree root)."""
    REAL_FILES, DIRS = (files, dirs or []) if files is not None else (globals()["REAL_FILES"], globals()["DIRS"])
    repo = os.path.join(base, "gitrepo")
    os.makedirs(repo, exist_ok=True)
    subprocess.run([GIT, "init", "-q", repo], check=True, capture_output=True)
    paths = []
    for i, pats in enumerate(lists):
        sub = os.path.join(repo, f"t{i}")
        for rel in REAL_FILES:
            p = os.path.join(sub, rel)
            os.makedirs(os.path.dirname(p), exist_ok=True)
            open(p, "w").close()
        with open(os.path.join(sub, ".gitignore"), "w") as f:
            f.write("".join(x + "\n" for x in pats))
        for rel in REAL_FILES + DIRS:
            paths.append(f"t{i}/{rel}")
    inp = "\0".join(paths) + "\0"
    p = subprocess.run([GIT, "-C", repo, "check-ignore", "--no-index", "-z", "--stdin", "-v", "-n"], input=inp, capture_output=True, text=True)
    fields = p.stdout.split("\0")
    res = [set() for _ in lists]
    for k in range(0, len(fields) - 3, 4):
        src, line, pat, path = fields[k:k + 4]
        if src and not pat.startswith("!"):
            i, _, rel = path.partition("/")
            res[int(i[1:])].add(rel)
    shutil.rmtree(repo, ignore_errors=True)
    return res


KNOWN_ID = "C09-pathspec-reinclude"


def attributable(pats, rel, ignored, exp, got):
    """The recorded finding is a disagreement between the third-party pathspec.GitIgnoreSpec and git.  A wrong
    answer is attributed to it iff (a) git says the resolved root-relative path is ignored, (b) CBI says member, and
    (c) pathspec.GitIgnoreSpec itself - asked here, by the harness, on the correct path - does not match it either:
    CBI merely relays the library's verdict.  Any other wrong answer (another spec class, a wrong path handed to the
    spec, a different precedence) is a new violation."""
    from ..core import result
    if not any(k["id"] == KNOWN_ID for k in result.load_known(ID)):
        return False
    if exp is not False or got is not True or rel not in ignored:
        return False
    import pathspec
    try:
        return not pathspec.GitIgnoreSpec.from_lines(list(pats)).match_file(rel)
    except Exception:  # noqa
        return False


def expected_member(root, query, ignored):
    ap = query if os.path.isabs(query) else os.path.join(root, query)
    rp = os.path.realpath(ap)
    rr = os.path.realpath(root)
    if not os.path.isfile(rp):
        return False
    if os.path.splitext(rp)[1] not in SRC_EXT:
        return False
    if not (rp == rr or rp.startswith(rr + os.sep)):
        return False
    return os.path.relpath(rp, rr) not in ignored


def observe(root, pats, qs):
    from codebasin import CodeBase

    cwd = os.getcwd()
    os.chdir(root)
    try:
        cb = CodeBase(root, exclude_patterns=list(pats))
        ans = {}
        for label, q in qs:
            try:
                ans[label] = bool(q in cb)
            except Exception as e:  # noqa
                ans[label] = f"EXC {type(e).__name__}: {e}"
        try:
            listed = list(cb)
        except Exception as e:  # noqa
            listed = f"EXC {type(e).__name__}: {e}"
        return ans, listed
    finally:
        os.chdir(cwd)


def judge(root, pats, ignored, qs):
    ans, listed = observe(root, pats, qs)
    bad = []
    for label, q in qs:
        e = expected_member(root, q, ignored)
        if ans[label] != e:
            ap = q if os.path.isabs(q) else os.path.join(root, q)
            rel = os.path.relpath(os.path.realpath(ap), os.path.realpath(root))
            kind = "known" if attributable(pats, rel, ignored, e, ans[label]) else "contains"
            bad.append((kind, f"{label}: {e}", f"{label}: {ans[label]}"))
    rr = os.path.realpath(root)
    members = {rel for rel in REAL_FILES if expected_member(root, os.path.join(root, rel), ignored)}
    if isinstance(listed, str):
        bad.append(("iter", sorted(members), listed))
    else:
        got_phys = set()
        wrong = []
        for p in listed:
            if not expected_member(root, p, ignored):
                rel = os.path.relpath(os.path.realpath(p), rr)
                if not attributable(pats, rel, ignored, False, True):
                    wrong.append(p)
            got_phys.add(os.path.relpath(os.path.realpath(p), rr))
        if wrong or not members <= got_phys:
            bad.append(("iter", sorted(members), sorted(os.path.relpath(p, root) for p in listed)))
    return bad


TWO = ("d", "ext")       # a code base made of two directories: patterns apply relative to the directory that holds the file


def _work_two(lists):
    """CodeBase(root/d, root/ext, exclude_patterns=P): membership of every file of the tree and the enumeration."""
    from codebasin import CodeBase

    base = env.fresh_dir("c09t")
    root = make_tree(base)
    sub = {t: [rel[len(t) + 1:] for rel in REAL_FILES if rel.startswith(t + "/")] for t in TWO}
    ign = {t: git_ignored(base, lists, sub[t], [d[len(t) + 1:] for d in DIRS if d.startswith(t + "/")]) for t in TWO}
    out = []
    n = 0
    for i, pats in enumerate(lists):
        try:
            cb = CodeBase(*[os.path.join(root, t) for t in TWO], exclude_patterns=list(pats))
            listed = {os.path.relpath(os.path.realpath(p), os.path.realpath(root)) for p in cb}
        except Exception as e:  # noqa
            out.append(Failure("two-directories", {"patterns": list(pats), "directories": list(TWO)}, observed=f"{type(e).__name__}: {e}"))
            continue
        exp = set()
        bad = []
        for rel in REAL_FILES:
            n += 1
            t = next((t for t in TWO if rel.startswith(t + "/")), None)
            inner = rel[len(t) + 1:] if t else None
            e = bool(t) and os.path.splitext(rel)[1] in SRC_EXT and inner not in ign[t][i]
            if e:
                exp.add(rel)
            try:
                g = bool(os.path.join(root, rel) in cb)
            except Exception as ex:  # noqa
                g = f"EXC {type(ex).__name__}"
            if g != e and not (t and attributable(pats, inner, ign[t][i], e, g)):
                bad.append((rel, e, g))
        extra = {x for x in listed - exp if not any(x.startswith(t + "/") and attributable(pats, x[len(t) + 1:], ign[t][i], False, True) for t in TWO)}
        if bad or extra or not exp <= listed:
            out.append(Failure("two-directories", {"patterns": list(pats), "directories": list(TWO)},
                               expected={"members": sorted(exp)[:12]}, observed={"contains": bad[:6], "listed_but_not_member": sorted(extra)[:6], "member_but_not_listed": sorted(exp - listed)[:6]}))
    shutil.rmtree(base, ignore_errors=True)
    return n, out[:10]


def _work(arg):
    lists, tag = arg
    base = env.fresh_dir("c09")
    root = make_tree(base)
    qs = queries(root)
    ign = git_ignored(base, lists)
    n = 0
    fails = []
    known = []
    outcomes = set()
    for pats, ig in zip(lists, ign):
        n += len(qs) + 1
        outcomes.add(frozenset(ig))
        b = judge(root, pats, ig, qs)
        kb = [x for x in b if x[0] == "known"]
        b = [x for x in b if x[0] != "known"]
        if kb:
            known.append((pats, kb[0]))
        if b:
            fails.append((pats, b[0]))
    out = []
    seen = set()
    for pats, b in fails[:60]:
        f = robust(mk_failure, {"patterns": list(pats), "query": b[1]}, base, root, qs, pats, b)
        if f and f.key() not in seen:
            seen.add(f.key())
            out.append(f)
    if known:
        pats, kb = min(known, key=lambda x: (len(x[0]), x[0]))
        f = Failure("attributed", {"patterns": pats, "query": kb[1]}, expected=kb[1], observed=kb[2], known_id=KNOWN_ID)
        f["count"] = len(known)
        out.append(f)
    shutil.rmtree(base, ignore_errors=True)
    return len(lists), n, len(fails) + len(known), out, len(outcomes)


def mk_failure(base, root, qs, pats, b0):
    kind = b0[0]
    label = b0[1].split(":")[0] + ":" + b0[1].split(":")[1] if kind == "contains" else None

    def first(pp):
        ig = git_ignored(base, [list(pp)])[0]
        b = [y for y in judge(root, list(pp), ig, qs) if y[0] != "known"]
        for x in b:
            if x[0] == kind and (label is None or x[1].startswith(label + ":")):
                return x
        return None

    def cands(pp):
        for i in range(len(pp)):
            yield pp[:i] + pp[i + 1:]

    w = shrink.minimize(tuple(pats), cands, lambda pp: first(pp) is not None)
    x = first(w)
    return Failure(kind, {"patterns": list(w), "query": label}, expected=x[1], observed=x[2], original={"patterns": list(pats)})


def run(tier):
    rep = Report(ID, "exploration")
    if not GIT:
        raise SystemExit("git is required for the C09 oracle")
    lists = [[]] + [[p] for p in POOL] + [[p, q] for p in POOL for q in POOL]
    if tier == "thorough":
        lists += [[p, q, r] for p in POOL3 for q in POOL3 for r in POOL3]
        lists += [[p, q, r] for p in POOL3[:6] for q in POOL for r in POOL3[:6]]
    # seed-selected extension: all triples that start with a seed-chosen pattern of the full pool (second/third from POOL3)
    first = POOL[env.SEED % len(POOL)]
    ext = [[first, q, r] for q in POOL3 for r in POOL3]
    lists += ext
    chunks = [lists[i:i + 120] for i in range(0, len(lists), 120)]
    res = par.pmap(_work, [(c, i) for i, c in enumerate(chunks)])
    for r in res:
        rep.add(r[3])
    two_lists = [[]] + [[p] for p in POOL] + [[p, q] for p in POOL3 for q in POOL3] + [["/a.c", "e/b.c"], ["/e/", "!/e/b.c"], ["d/"], ["ext/"], ["/s1.F", "*.h"]]
    res2 = par.pmap(_work_two, [two_lists[i:i + 24] for i in range(0, len(two_lists), 24)])
    for r in res2:
        rep.add(r[1])
    rep.coverage["two_directory_lists"] = len(two_lists)
    rep.coverage["two_directory_evaluations"] = sum(r[0] for r in res2)
    rep.coverage.update({
        "evaluations": sum(r[1] for r in res) + sum(r[0] for r in res2), "distinct_nontrivial": sum(r[0] for r in res),
        "rule": "pattern lists: [], every single pattern and every ordered pair over a pool of %d patterns%s, + extension triples starting with %r; "
                "each list is queried with %d path spellings plus list(CodeBase); non-trivial/distinct = pattern lists" % (
                    len(POOL), " + all triples over a 12-pattern sub-pool" if tier == "thorough" else "", first, len(queries("/r"))),
        "pattern_lists": len(lists), "spellings": len(queries("/r")), "failing_lists": sum(r[2] for r in res),
        "distinct_ignore_sets_per_shard_sum": sum(r[4] for r in res),
        "samples": [{"patterns": ["d/", "!d/e/b.c"], "queries": ["rel:d/e/b.c", "dirlink:dl/e/b.c"]}, {"patterns": lists[777]}],
        "exhaustive": True,
    })
    rep.assumptions = ["git check-ignore --no-index (git %s) decides pattern matching on the resolved root-relative path" % subprocess.run([GIT, "--version"], capture_output=True, text=True).stdout.split()[-1],
                       "rglob does not follow directory links: files reachable only through a directory link need not be enumerated twice"]
    return rep


def replay(witness, kind=None):
    if "directories" in witness:
        n, out = _work_two([witness["patterns"]])
        return {"violates": bool(out), "detail": [dict(f) for f in out[:2]]}
    base = env.fresh_dir("c09r")
    root = make_tree(base)
    qs = queries(root)
    ig = git_ignored(base, [witness["patterns"]])[0]
    b = judge(root, witness["patterns"], ig, qs)
    return {"violates": any(x[0] != "known" for x in b), "known_finding_only": bool(b) and all(x[0] == "known" for x in b), "git_ignores": sorted(ig), "detail": b[:6]}
