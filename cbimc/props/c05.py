"""C05 - a physical line is counted iff it holds code outside comments.

S: product-machine BFS.  State = (abstract state of the real c_file_source generator, read
   from its live frame between physical lines; state of the reference scanner).  Transition =
   feed one more physical line (every string over SIGMA up to a length bound).  Generators do
   not copy, so a state is the line history reaching it and is rebuilt by replay.
E: every text over SIGMA_E up to a length bound through c_file_source, and shorter ones through
   FileParser.parse_file on tmpfs.
Oracle: ref/cscan.py (translation phases 2-3).
"""
import contextlib
import itertools
import json
import os
import sys

from ..core import env, par, repair, result, shrink
from ..core.result import Failure, Report, robust
from ..ref import cscan

ID = "C05"
SIGMA_FULL = ["a", "0", " ", "\t", "/", "*", '"', "'", "\\", "#"]  # S alphabet (one line = word over it)
SIGMA_CORE = ["a", " ", "/", "*", '"', "'", "\\", "#"]               # without the class-equivalent '0', tab
SIGMA_E = ["a", " ", "/", "*", '"', "'", "\\", "#", "\n"]           # E alphabet ('0','\t' ~ 'a',' ' shown by S)
K_CONGRUENCE = 3


def _j(x):
    return json.loads(json.dumps(x))


# ------------------------------------------------------------------ driving the real code
class Feeder:
    """Line iterator handed to c_file_source; snapshots the generator's locals at every pull."""

    def __init__(self, lines, introspect=True):
        self.lines = lines
        self.i = 0
        self.eof = False
        self.snaps = []
        self.introspect = introspect

    def __iter__(self):
        return self

    def __next__(self):
        if self.introspect:
            self.snaps.append(_snap(sys._getframe(1)))
        if self.i >= len(self.lines):
            self.eof = True
            raise StopIteration
        ln = self.lines[self.i]
        self.i += 1
        return ln


def _pclass(parts):
    """category() only tells ' ' and '#' from anything else; join() only asks parts[0] == ' '"""
    return tuple(p if p in (" ", "#") else "x" for p in parts)


def _snap(frame):
    try:
        loc = frame.f_locals
        cleaner = loc["cleaner"]
        cur = loc["curr_line"]
        ll = cur.current_logical_line
        # category() reads parts[:2] and len(parts)==1, join() reads parts[0] and trailing_space: that is the abstraction
        return ((tuple(cleaner.state), ll.category(), bool(ll.trailing_space), bool(cur.lines), _pclass(ll.parts[:2]), min(len(ll.parts), 3)), list(cur.lines))
    except Exception:
        return (None, None)


class Impl:
    """The implementation under test: file_source module (real, or micro-repaired)."""

    def __init__(self, fs_module=None):
        if fs_module is None:
            import codebasin.file_source as fs_module
        self.fs = fs_module
        self.repaired = fs_module.__name__.endswith("__repaired")

    def run(self, lines, introspect=False):
        """events=[(lines_consumed, at_eof, category, [lines])], ret=(sloc, phys)|None, exc, snaps"""
        fd = Feeder(lines, introspect)
        ev, ret, exc = [], None, None
        gen = self.fs.c_file_source(fd)
        try:
            while True:
                li = next(gen)
                ev.append((fd.i, fd.eof, li.category, list(li.lines)))
        except StopIteration as s:
            ret = s.value
        except Exception as e:  # noqa
            exc = f"{type(e).__name__}: {e}"
        return {"events": ev, "ret": ret, "exc": exc, "snaps": fd.snaps, "exc_at_eof": bool(exc and fd.eof)}

    def text(self, text):
        r = self.run(cscan.split_lines(text))
        if r["exc"]:
            return ("EXC", r["exc"])
        return ([(c, l) for _, _, c, l in r["events"]], r["ret"][0])

    @contextlib.contextmanager
    def _patched_parser(self):
        import codebasin.file_parser as fp

        old = fp.get_file_source
        if self.repaired:
            fp.get_file_source = self.fs.get_file_source
        try:
            yield fp
        finally:
            fp.get_file_source = old

    def parse(self, text, path):
        """(sorted directive lines, sorted code lines, total_sloc, sum of node sloc)"""
        from codebasin import preprocessor

        with open(path, "w") as f:
            f.write(text)
        with self._patched_parser() as fp:
            try:
                tree = fp.FileParser(path).parse_file(summarize_only=True)
            except Exception as e:  # noqa
                return ("EXC", f"{type(e).__name__}: {e}")
        d, c = [], []
        for n in tree.walk():
            if isinstance(n, preprocessor.DirectiveNode):
                d.extend(n.lines)
            elif isinstance(n, preprocessor.CodeNode):
                c.extend(n.lines)
        sloc_nodes = sum(n.num_lines for n in tree.walk() if isinstance(n, preprocessor.CodeNode))
        return (sorted(d), sorted(c), tree.root.total_sloc, sloc_nodes)


_impls = None


def impls():
    """[(None, real impl)] + [(finding id, repaired impl)] for listed repair-type findings."""
    global _impls
    if _impls is None:
        _impls = [(None, Impl())]
        for k in result.load_known(ID, "repair"):
            m = repair.load_repaired(k["match"]["module"], k["match"]["edits"])
            if m is not None:
                _impls.append((k["id"], Impl(m)))
    return _impls


def expected_text(text):
    out, ill = cscan.scan(text)
    if out is None:
        return None
    return (out, sum(len(l) for _, l in out))


def expected_parse(text):
    out, ill = cscan.scan(text)
    if out is None:
        return None
    d = [x for c, l in out if c == "CPP_DIRECTIVE" for x in l]
    c = [x for cc, l in out if cc != "CPP_DIRECTIVE" for x in l]
    n = len(d) + len(c)
    return (sorted(d), sorted(c), n, n)


def _tmp():
    return os.path.join(env.scratch("c05"), f"t{os.getpid()}.c")


# ------------------------------------------------------------------ verdict on one text
def judge(text, via, impl=None):
    """(None, None) if ill-formed, (exp, None) if agreeing, else (exp, (kind, expected, observed))."""
    impl = impl or impls()[0][1]
    if via == "c_file_source":
        exp = expected_text(text)
        if exp is None:
            return None, None
        got = impl.text(text)
    else:
        exp = expected_parse(text)
        if exp is None:
            return None, None
        got = impl.parse(text, _tmp())
    if got[0] == "EXC":
        return exp, (f"{via}:exception", exp, got)
    if _j(got) != _j(exp):
        return exp, (f"{via}:mismatch", exp, got)
    return exp, None


_full = None


def full_repair():
    """Implementation with the micro-repairs of *all* listed repair-type findings applied (or None)."""
    global _full
    if _full is None:
        ks = result.load_known(ID, "repair")
        edits = [e for k in ks for e in k["match"]["edits"]]
        m = repair.load_repaired("codebasin.file_source", edits) if edits else None
        _full = (Impl(m) if m is not None else False,)
    return _full[0] or None


def attribute(text, via):
    """Finding id that explains this failing text: the case passes once the listed micro-repairs are
    applied (named after the first single repair that suffices, else 'several').  None if a residual
    failure remains, i.e. something not listed is (also) wrong."""
    fr = full_repair()
    if fr is None or judge(text, via, fr)[1] is not None:
        return None
    for kid, impl in impls()[1:]:
        if judge(text, via, impl)[1] is None:
            return kid
    return impls()[1][0]


def residual(text, via):
    """The failure that remains after all listed micro-repairs (or the plain failure if there are none)."""
    fr = full_repair()
    _, j = judge(text, via)
    if j is None:
        return None
    if fr is None:
        return j
    return judge(text, via, fr)[1]


def mk_failure(text, via):
    j = residual(text, via)
    if j is None:
        return None
    kind = j[0]

    def fails(t):
        jj = residual(t, via)
        return jj is not None and jj[0] == kind

    w = shrink.minimize(text, shrink.str_moves, fails)
    jj = residual(w, via)
    return Failure(kind, {"text": w, "via": via}, expected=_j(jj[1]), observed=_j(jj[2]), original={"text": text, "via": via})


class Tally:
    """Failing cases found by a worker: unexplained texts, and per known finding a count + smallest example."""

    def __init__(self):
        self.texts = []
        self.known = {}

    def add(self, text, via):
        if judge(text, via)[1] is None and (full_repair() is None or judge(text, via, full_repair())[1] is None):
            return                  # not a failing text at all (neither for the real code nor behind the repairs)
        kid = attribute(text, via)
        if kid is None:
            self.texts.append((text, via))
        else:
            c, ex = self.known.get(kid, (0, None))
            if ex is None or (len(text), text) < (len(ex[0]), ex[0]):
                ex = (text, via)
            self.known[kid] = (c + 1, ex)

    def merge(self, other):
        self.texts.extend(other.texts)
        for kid, (c, ex) in other.known.items():
            c0, ex0 = self.known.get(kid, (0, None))
            if ex0 is None or (len(ex[0]), ex[0]) < (len(ex0[0]), ex0[0]):
                ex0 = ex
            self.known[kid] = (c0 + c, ex0)


# ------------------------------------------------------------------ E explorer
def _e_shard(arg):
    prefix, n, via = arg
    tested = wf = 0
    tally = Tally()
    outcomes = set()
    sample = None
    for k in range(0, n - len(prefix) + 1):
        for tail in itertools.product(SIGMA_E, repeat=k):
            text = prefix + "".join(tail)
            tested += 1
            exp, j = judge(text, via)
            if exp is None:
                continue
            wf += 1
            outcomes.add(repr(exp))
            if sample is None and len(text) == n and exp[-1] >= 2:
                sample = text
            if j is not None:
                tally.add(text, via)
    return tested, wf, tally, outcomes, sample


def explore_e(n, via, shard_len=2):
    shards = []
    for k in range(shard_len):       # texts shorter than shard_len are their own (exact) shards
        for p in itertools.product(SIGMA_E, repeat=k):
            shards.append(("".join(p), k, via))
    for p in itertools.product(SIGMA_E, repeat=shard_len):
        shards.append(("".join(p), n, via))
    res = par.pmap(_e_shard, shards, chunksize=1)
    tally = Tally()
    outcomes = set()
    for r in res:
        tally.merge(r[2])
        outcomes |= r[3]
    return sum(r[0] for r in res), sum(r[1] for r in res), tally, len(outcomes), [r[4] for r in res if r[4]][:3]


# ------------------------------------------------------------------ ground truth for the reference scanner
def gcc_validate(texts):
    """gcc -E (without -P) keeps every surviving token on its physical line (linemarkers resynchronise), so the
    set of lines holding code can be read back.  Judged: well-formed texts without directive lines and without a
    backslash-newline inside a token (gcc prints a spliced token on its first line).  Returns (checked, disagreements)."""
    import re
    import subprocess
    from ..core import gcc as G

    if not G.available():
        return 0, []
    jobs = []
    for t in texts:
        r = cscan.RefScanner()
        try:
            for ln in cscan.split_lines(t):
                r.feed(ln)
            out = r.finish()
        except cscan.IllFormed:
            continue
        if r.split_literal or any(c == "CPP_DIRECTIVE" for c, _ in out):
            continue
        if re.search(r"\S\\\n\S", t) or re.search(r"\\\n\Z", t):
            continue
        jobs.append((t, sorted(x for _, l in out for x in l)))
    if not jobs:
        return 0, []
    src = []
    starts = []
    for t, _ in jobs:
        starts.append(len(src) + 1)
        body = t if t.endswith("\n") else t + "\n"
        src.extend(body[:-1].split("\n"))
        src.append("@@SEP@@")
    p = subprocess.run([G.GCC, "-E", "-x", "c", "-"], input="\n".join(src) + "\n", capture_output=True, text=True)
    if p.stderr.strip():
        return 0, [("<batch>", "gcc diagnostics: " + p.stderr[:300])]
    has = set()
    cur = None
    for ln in p.stdout.split("\n"):
        m = re.match(r'^# (\d+) "([^"]*)"', ln)
        if m:
            cur = int(m.group(1)) if m.group(2) == "<stdin>" else None
            continue
        if cur is not None:
            if ln.strip():
                has.add(cur)
            cur += 1
    dis = []
    for (t, exp), st in zip(jobs, starts):
        n = len((t if t.endswith("\n") else t + "\n")[:-1].split("\n"))
        got = sorted(x - st + 1 for x in has if st <= x < st + n)
        if got != exp:
            dis.append((t, f"reference {exp}, gcc {got}"))
    return len(jobs), dis


def _gcc_shard(arg):
    prefix, n = arg
    texts = [prefix + "".join(t) for k in range(0, n - len(prefix) + 1) for t in itertools.product(SIGMA_E, repeat=k)]
    chk, dis = gcc_validate(texts)
    return chk, len(dis), dis[:3]


# ------------------------------------------------------------------ S explorer
_alpha_cache = {}


def _line_alphabet(spec):
    """spec = ((alphabet name, max line length), ...): union of the line sets, simplest first."""
    if spec not in _alpha_cache:
        seen, out = set(), []
        for name, maxlen in spec:
            sig = SIGMA_FULL if name == "full" else SIGMA_CORE
            for k in range(maxlen + 1):
                for p in itertools.product(sig, repeat=k):
                    w = "".join(p)
                    if w not in seen:
                        seen.add(w)
                        out.append(w)
        _alpha_cache[spec] = out
    return _alpha_cache[spec]


def _ref_after(path):
    r = cscan.RefScanner()
    for ln in path:
        r.feed(ln)
    return r


def _clone(r):
    c = cscan.RefScanner.__new__(cscan.RefScanner)
    c.__dict__.update(r.__dict__)
    c.lines = list(r.lines)
    c.out = list(r.out)
    return c


def _same(got, exp):
    return [[c, list(l)] for c, l in got] == [[c, list(l)] for c, l in exp]


def _expand(arg):
    """Expand one history by every line of the alphabet (transition), plus EOF checks with and
    without the final newline."""
    path, maxlen, which = arg
    path = list(path)
    impl = impls()[0][1] if which == "real" else full_repair()
    base = _ref_after(path)
    n0 = len(base.out)
    succ = {}      # line -> (implkey, refkey) | 'ILL' | 'VIOL'
    tally = Tally()
    trans = pruned = eofs = 0
    k = len(path) + 1
    for L in _line_alphabet(maxlen):
        ref = _clone(base)
        try:
            ref.feed(L + "\n")
        except cscan.IllFormed:
            pruned += 1
            succ[L] = "ILL"
            continue
        trans += 1
        r = impl.run(path + [L + "\n"], introspect=True)
        got_line = [(c, l) for i, eof, c, l in r["events"] if i == k and not eof]
        got_prefix = [(c, l) for i, eof, c, l in r["events"] if i < k]
        bad = not _same(got_line, ref.out[n0:]) or not _same(got_prefix, base.out)
        if r["exc"] is not None and not r["exc_at_eof"]:
            bad = True
        snap, inprog = r["snaps"][k] if len(r["snaps"]) > k else (None, None)
        if inprog is not None and inprog != ref.lines:
            bad = True            # lines credited so far to the unfinished logical line already differ
        if bad:
            # as a replayable text the violating prefix must be closed: append what makes it a well-formed text
            # on which the implementation's *final* answer is wrong
            closed = _close_failing("".join(path) + L + "\n", impl)
            if closed is not None:
                succ[L] = "VIOL"
                tally.add(closed, "c_file_source")
                continue
            # no closing shows a wrong final answer (yet): the implementation only emitted / credited lines at
            # another moment than the reference.  Not a violation by itself - keep exploring behind it.
            succ[L] = (snap, ref.key(), "diverged")
            continue
        fin = _clone(ref)
        try:                      # EOF right after this line (text ends with a newline)
            out = fin.finish()
            eofs += 1
            got_all = [(c, l) for _, _, c, l in r["events"]]
            if r["exc"] or not _same(got_all, out) or r["ret"][0] != sum(len(l) for _, l in out):
                tally.add("".join(path) + L + "\n", "c_file_source")
        except cscan.IllFormed:
            pass
        if L:                     # EOF with the last line lacking its newline
            ref2 = _clone(base)
            try:
                ref2.feed(L)
                out = ref2.finish()
                eofs += 1
                r2 = impl.run(path + [L])
                got_all = [(c, l) for _, _, c, l in r2["events"]]
                if r2["exc"] or not _same(got_all, out) or r2["ret"][0] != sum(len(l) for _, l in out):
                    tally.add("".join(path) + L, "c_file_source")
            except cscan.IllFormed:
                pass
        succ[L] = (snap, ref.key())
    return path, succ, tally, trans, pruned, eofs


_CLOSERS = ["", "*/", '"', "'", "a*/", 'a"', "a'"]
_TAILS = ["", "\n", "a\n", " a\n", "\na\n", "\n#\n", "\\\na\n"]


def _close_failing(text, impl):
    """First suffix (simplest first) that makes the prefix a well-formed text which this implementation gets wrong."""
    for tail in _TAILS:
        for c in _CLOSERS:
            t = text + c + tail
            exp, j = judge(t, "c_file_source", impl)
            if exp is not None and j is not None:
                return t
    return None


def explore_s(maxlen, which="real", depth_cap=12):
    impl = impls()[0][1] if which == "real" else full_repair()
    r0 = impl.run([], introspect=True)
    init_key = (r0["snaps"][0][0] if r0["snaps"] else None, cscan.RefScanner().key())
    reps = {init_key: [[]]}
    expanded = {}
    frontier = [(init_key, [])]
    states = {init_key}
    transitions = pruned = eofs = conflicts = 0
    tally = Tally()
    depth = 0
    samples = []
    intro_ok = init_key[0] is not None
    while frontier and depth < depth_cap:
        depth += 1
        res = par.pmap(_expand, [(p, maxlen, which) for _, p in frontier], chunksize=1)
        nxt = []
        for (key, _), (path, succ, tl, t, pr, eo) in zip(frontier, res):
            transitions += t
            pruned += pr
            eofs += eo
            tally.merge(tl)
            if key in expanded:
                if expanded[key] != succ:     # congruence: same key, different future
                    conflicts += 1
                    if os.environ.get("VERIF_DEBUG"):
                        d = [(L, expanded[key][L], succ[L]) for L in succ if expanded[key][L] != succ[L]][:5]
                        print("CONFLICT", key, path, reps[key][0], d, file=sys.stderr)
                continue
            expanded[key] = succ
            for L, s in succ.items():
                if s in ("ILL", "VIOL"):
                    continue
                if s[0] is None:
                    intro_ok = False
                hist = path + [L + "\n"]
                if s not in states:
                    states.add(s)
                    reps[s] = [hist]
                    nxt.append((s, hist))
                    if len(samples) < 4 and len(hist) >= 2:
                        samples.append({"history": hist, "state": repr(s)})
                elif len(reps[s]) < K_CONGRUENCE and hist not in reps[s]:
                    reps[s].append(hist)
                    nxt.append((s, hist))
        frontier = nxt
    return {
        "states": len(states), "transitions": transitions, "pruned_illformed": pruned, "eof_checks": eofs,
        "abstraction_conflicts": conflicts, "max_depth": depth, "frontier_empty": not frontier,
        "introspection": intro_ok, "samples": samples,
    }, tally


# ------------------------------------------------------------------ entry points
def _mk(tv):
    return robust(mk_failure, {"text": tv[0], "via": tv[1]}, *tv)


def run(tier):
    rep = Report(ID, "model_checking")
    if tier == "quick":
        s_len, e_len, p_len = (("core", 3), ("full", 2)), 6, 5
    else:
        s_len, e_len, p_len = (("full", 3), ("core", 4)), 8, 6
    sinfo, tally = explore_s(s_len)
    # the same search on the implementation with the listed micro-repairs applied: reaches the states that
    # lie behind a known-finding transition (failures there are reported only if the real code fails too)
    if full_repair() is not None:
        rinfo, rtally = explore_s(s_len, "repaired")
        tally.merge(rtally)
    else:
        rinfo = None
    t1, wf1, tl1, o1, smp1 = explore_e(e_len, "c_file_source")
    t2, wf2, tl2, o2, smp2 = explore_e(p_len, "parse_file")
    # seed-selected extension: all texts one symbol longer that start with a seed-chosen 2-symbol prefix
    pref = "".join(SIGMA_E[(env.SEED // (9 ** i)) % 9] for i in range(2))
    ext = _e_shard((pref, e_len + 1, "c_file_source"))
    for t in (tl1, tl2, ext[2]):
        tally.merge(t)
    gl = 5 if tier == "quick" else 6
    gres = par.pmap(_gcc_shard, [("".join(p2), gl) for p2 in itertools.product(SIGMA_E, repeat=2)] + [(x, len(x)) for x in [""] + SIGMA_E])
    gstat = {"texts_checked": sum(r[0] for r in gres), "disagreements": sum(r[1] for r in gres), "examples": [d for r in gres for d in r[2]][:5], "max_len": gl}
    uniq = sorted(set(tally.texts), key=lambda tv: (len(tv[0]), tv))
    fl = par.pmap(_mk, uniq, chunksize=4)
    rep.add([f for f in fl if f])
    for kid, (cnt, ex) in tally.known.items():
        f = Failure("attributed", {"text": ex[0], "via": ex[1]}, known_id=kid)
        f["count"] = cnt
        rep.add([f])
    rep.coverage.update({
        "states": sinfo["states"] + (rinfo["states"] if rinfo else 0),
        "transitions": sinfo["transitions"] + (rinfo["transitions"] if rinfo else 0),
        "traces_validated_against_impl": sinfo["transitions"] + sinfo["eof_checks"] + (rinfo["transitions"] + rinfo["eof_checks"] if rinfo else 0),
        "evaluations": sinfo["transitions"] + sinfo["eof_checks"] + t1 + t2 + ext[0] + (rinfo["transitions"] + rinfo["eof_checks"] if rinfo else 0),
        "S_on_micro_repaired_impl": {k: v for k, v in rinfo.items() if k != "samples"} if rinfo else None,
        "distinct_nontrivial": wf1 + wf2,
        "failing_cases": len(tally.texts) + sum(c for c, _ in tally.known.values()),
        "rule": "S: product BFS, one transition = one physical line (alphabet,maxlen)=%s fed to the live generator, "
                "ill-formed lines pruned; E: every text over 9 symbols of length<=%d through c_file_source and "
                "<=%d through FileParser.parse_file; non-trivial = well-formed per the reference scanner "
                "(distinct texts)" % (s_len, e_len, p_len),
        "S": {k: v for k, v in sinfo.items() if k != "samples"},
        "E_c_file_source": {"texts": t1, "well_formed": wf1, "max_len": e_len, "distinct_expected_outcomes": o1},
        "E_parse_file": {"texts": t2, "well_formed": wf2, "max_len": p_len, "distinct_expected_outcomes": o2},
        "oracle_gcc": gstat,
        "E_extension": {"prefix": pref, "len": e_len + 1, "texts": ext[0], "well_formed": ext[1]},
        "samples": sinfo["samples"] + [{"text": s} for s in smp1[:2] + smp2[:1]],
        "exhaustive": bool(sinfo["frontier_empty"] and (rinfo is None or rinfo["frontier_empty"])),
    })
    rep.assumptions = [
        "alphabet {a 0 space tab / * \" ' \\ # newline}: trigraphs, raw strings, \\r, unicode white space not covered",
        "reference scanner = translation phases 2-3 (ref/cscan.py); texts gcc diagnoses (unterminated literal/comment, stray backslash, backslash-newline at EOF) are pruned",
        "abstract implementation state read from the live generator frame (cleaner.state, category, trailing_space, has-lines); congruence-checked on up to 3 histories per state",
        "failing cases attributed to a listed known finding only if that finding's micro-repair of the current source makes them pass",
    ]
    return rep


def replay(witness, kind=None):
    exp, j = judge(witness["text"], witness["via"])
    if j is None:
        return {"violates": False, "well_formed": exp is not None, "expected": _j(exp)}
    return {"violates": True, "kind": j[0], "expected": _j(j[1]), "observed": _j(j[2]), "text": witness["text"],
            "attributed_to_known_finding": attribute(witness["text"], witness["via"])}
