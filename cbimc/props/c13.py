"""C13 - compilation-database entries resolve to the right files and directories.

E: over a fixed tree, every entry formed from `file` x `directory` x `-I` spellings (absolute,
relative to the root / to a build directory inside or outside the root, with ./ and ../
segments, attached / separate); databases = every sequence of <= 3 entries over a
representative subset mixed with the four skipped kinds (missing file, object file, empty
command, empty arguments).  Oracle: independent path model, confirmed by running gcc -E from
the entry's directory; skipped entries: one warning each, no exception, the other entries
unchanged; end-to-end: the header found through -I is the one attributed.
"""
import itertools
import json
import logging
import os
import shutil
import subprocess

from ..core import env, par, shrink
from ..core.result import Failure, Report, robust

ID = "C13"
GCC = shutil.which("gcc")


def make_tree(base):
    root = os.path.join(base, "root")
    for d in ("root/src/sub", "root/src/inc", "root/src/other", "root/build", "obuild", "root/alt/inc", "root/alt/sub"):
        os.makedirs(os.path.join(base, d))
    w = lambda rel, txt: open(os.path.join(base, rel), "w").write(txt)
    w("root/src/sub/f.c", '#include <h.h>\nint f;\n')
    w("root/src/inc/h.h", "int from_inc;\n")
    w("root/src/other/h.h", "int from_other;\n")
    w("root/alt/inc/h.h", "int from_alt;\n")
    w("root/alt/sub/f.c", '#include <h.h>\nint f;\n')      # a second file that two directories spell "f.c"
    w("root/src/sub/g.c", '#include <own.h>\nint g;\n')      # needs -I . (its own directory) for the angle form
    w("root/src/sub/own.h", "int own;\n")
    w("root/src/sub/f.o", "\x7fELF")
    w("root/src/sub/unused.c", "int unused;\n")
    return root


def dir_options(base, root):
    return [("absent", None), ("abs-root", root), ("abs-build-inside", os.path.join(root, "build")), ("abs-build-outside", os.path.join(base, "obuild")),
            ("rel-build", "build"), ("rel-dotdot", "src/../build"), ("rel-dot", ".")]


def dir_abs(root, d):
    if d is None:
        return root
    return os.path.normpath(d if os.path.isabs(d) else os.path.join(root, d))


def file_spellings(root, da):
    target = os.path.join(root, "src/sub/f.c")
    rel = os.path.relpath(target, da)
    return [("abs", target), ("rel", rel), ("dot-rel", "./" + rel), ("redundant", os.path.join(os.path.dirname(rel), "..", "sub", "f.c"))]


def inc_spellings(root, da):
    inc = os.path.join(root, "src/inc")
    oth = os.path.join(root, "src/other")
    r = os.path.relpath(inc, da)
    return [("abs", ["-I", inc], inc), ("rel-separate", ["-I", r], inc), ("rel-attached", ["-I" + r], inc), ("rel-dot", ["-I", "./" + r], inc),
            ("rel-other", ["-I" + os.path.relpath(oth, da)], oth), ("rel-dotdot", ["-I", os.path.join(r, "..", "other")], oth)]


def good_entries(base, root):
    out = []
    for dn, d in dir_options(base, root):
        da = dir_abs(root, d)
        for fn, f in file_spellings(root, da):
            for iname, iargs, idir in inc_spellings(root, da):
                e = {"file": f, "arguments": ["/usr/bin/gcc", "-c"] + iargs + [f]}
                if d is not None:
                    e["directory"] = d
                out.append({"name": f"{dn}/{fn}/{iname}", "entry": e, "exp_file": os.path.join(root, "src/sub/f.c"), "exp_inc": [os.path.normpath(idir)],
                            "cwd": da})
    # the same relative spelling "-I inc" from two different directories must resolve differently
    for dn, d, idir in (("same-rel-I-from-src", os.path.join(root, "src"), os.path.join(root, "src/inc")), ("same-rel-I-from-alt", "alt", os.path.join(root, "alt/inc"))):
        da = dir_abs(root, d)
        f = os.path.relpath(os.path.join(root, "src/sub/f.c"), da)
        out.append({"name": dn, "entry": {"file": f, "directory": d, "arguments": ["/usr/bin/gcc", "-c", "-I", "inc", f]},
                    "exp_file": os.path.join(root, "src/sub/f.c"), "exp_inc": [os.path.normpath(idir)], "cwd": da})
    # two entries with byte-identical argument lists (as a recursive make writes them) from two different directories:
    # the same relative spellings "f.c" and "../inc" name two different files and two different include directories
    out.append({"name": "same-rel-file-from-sub", "entry": {"file": "f.c", "directory": os.path.join(root, "src/sub"), "arguments": ["/usr/bin/gcc", "-c", "-I", "../inc", "f.c"]},
                "exp_file": os.path.join(root, "src/sub/f.c"), "exp_inc": [os.path.join(root, "src/inc")], "cwd": os.path.join(root, "src/sub")})
    out.append({"name": "same-rel-file-from-alt", "entry": {"file": "f.c", "directory": "alt/sub", "arguments": ["/usr/bin/gcc", "-c", "-I", "../inc", "f.c"]},
                "exp_file": os.path.join(root, "alt/sub/f.c"), "exp_inc": [os.path.join(root, "alt/inc")], "cwd": os.path.join(root, "alt/sub")})
    # -I naming the compiled file's own directory is an include directory like any other (an angle include needs it)
    out.append({"name": "I-own-directory", "entry": {"file": "g.c", "directory": os.path.join(root, "src/sub"), "arguments": ["/usr/bin/gcc", "-c", "-I", ".", "g.c"]},
                "exp_file": os.path.join(root, "src/sub/g.c"), "exp_inc": [os.path.join(root, "src/sub")], "cwd": os.path.join(root, "src/sub")})
    return out


def skipped_entries(root):
    return [
        # the spelling exists relative to the root, not relative to the entry's directory: a compiler run there finds no such file
        {"name": "missing-under-directory-present-under-root", "entry": {"file": "src/sub/f.c", "directory": os.path.join(root, "build"), "arguments": ["/usr/bin/gcc", "-c", "src/sub/f.c"]}, "skip": True},
        {"name": "same-rel-file-missing", "entry": {"file": "f.c", "directory": os.path.join(root, "build"), "arguments": ["/usr/bin/gcc", "-c", "f.c"]}, "skip": True},
        {"name": "missing-file", "entry": {"file": "src/sub/missing.c", "arguments": ["/usr/bin/gcc", "-c", "src/sub/missing.c"]}, "skip": True},
        {"name": "object-file", "entry": {"file": "src/sub/f.o", "command": "/usr/bin/gcc src/sub/f.o -o f"}, "skip": True},
        {"name": "empty-command", "entry": {"file": "src/sub/f.c", "command": ""}, "skip": True},
        {"name": "empty-arguments", "entry": {"file": "src/sub/f.c", "arguments": []}, "skip": True},
        {"name": "blank-command", "entry": {"file": "src/sub/f.c", "command": "   "}, "skip": True},
    ]


def observe(base, root, entries):
    from codebasin import config

    dbp = os.path.join(base, f"db{os.getpid()}.json")
    with open(dbp, "w") as f:
        json.dump([e["entry"] for e in entries], f)
    env.capture.records.clear()
    env.reset_compilers()
    try:
        res = config.load_database(dbp, root)
    except Exception as e:  # noqa
        return ("EXC", f"{type(e).__name__}: {str(e)[:120]}")
    warns = [r.getMessage() for r in env.capture.records if r.levelno == logging.WARNING]
    return (res, warns)


def attribution(root, db):
    """Which header copy is attributed when the entries are analysed (in-process find)."""
    from codebasin import CodeBase, finder

    env.capture.records.clear()
    try:
        st = finder.find(root, CodeBase(root), {"p": db})
    except Exception as e:  # noqa
        return ("EXC", f"{type(e).__name__}: {str(e)[:120]}")
    used = {}
    for fn in st.get_filenames():
        m = st.get_map(fn)
        n = sum(len(getattr(node, "lines", []) or []) for node, pl in m.items() if "p" in pl)
        used[os.path.relpath(fn, root)] = n
    return used


def judge(base, root, entries, with_attr=True):
    got = observe(base, root, entries)
    good = [e for e in entries if not e.get("skip")]
    exp = [(e["exp_file"], e["exp_inc"]) for e in good]
    if got[0] == "EXC":
        return [("exception", exp, got[1])]
    res, warns = got
    bad = []
    obs = [(r["file"], [os.path.normpath(p) for p in r["include_paths"]]) for r in res]
    if obs != exp:
        bad.append(("resolution", exp, obs))
    nskip = len(entries) - len(good)
    relevant = [w for w in warns if "Ignoring" in w or "gnor" in w or "nsupported" in w or "kipp" in w]
    if len(relevant) != nskip:
        bad.append(("skip-warnings", f"{nskip} warning(s), one per skipped entry", warns))
    if with_attr and good and not bad:
        a = attribution(root, res)
        if isinstance(a, tuple):
            bad.append(("exception", "analysis of the loaded entries", a[1]))
        else:
            want = set()
            for e in good:
                if e["name"] == "I-own-directory":
                    if a.get("src/sub/own.h", 0) != 1 or a.get("src/sub/g.c", 0) != 2:
                        bad.append(("attribution", "g.c and the header found through -I . fully used", a))
                    continue
                want.add(os.path.relpath(os.path.join(e["exp_inc"][0], "h.h"), root))
            for hdr in ("src/inc/h.h", "src/other/h.h", "alt/inc/h.h"):
                if (a.get(hdr, 0) > 0) != (hdr in want):
                    bad.append(("attribution", sorted(want), a))
                    break
            compiled = {os.path.relpath(e["exp_file"], root) for e in good}
            if any(a.get(f, 0) != (2 if f in compiled else 0) for f in ("src/sub/f.c", "alt/sub/f.c")) or a.get("src/sub/unused.c", 0) != 0:
                bad.append(("attribution", {"fully used": sorted(compiled), "not used": ["src/sub/unused.c"] + sorted({"src/sub/f.c", "alt/sub/f.c"} - compiled)}, a))
    return bad


def gcc_confirm(base, root, goods):
    """gcc -E run from the entry's directory must pick the header the path model predicts."""
    if not GCC:
        return 0, []
    seen = {}
    dis = []
    for e in goods:
        key = (e["cwd"], tuple(e["entry"]["arguments"]))
        if key in seen:
            continue
        args = e["entry"]["arguments"]
        p = subprocess.run([GCC, "-E", "-P"] + args[2:], cwd=e["cwd"], capture_output=True, text=True)
        seen[key] = p.stdout
        want = "from_alt" if "/alt/" in e["exp_inc"][0] else "from_inc" if e["exp_inc"][0].endswith("inc") else "from_other"
        if p.returncode != 0 or want not in p.stdout:
            dis.append((e["name"], p.stderr[:200]))
    return len(seen), dis


def _work(arg):
    idxs, mode = arg
    base = env.fresh_dir("c13")
    root = make_tree(base)
    goods = good_entries(base, root)
    skips = skipped_entries(root)
    rep = [g for g in goods if g["name"] in REPRESENTATIVE]
    pool = rep + skips
    n = 0
    fails = []
    for idx in idxs:
        if mode == "single":
            entries = [goods[idx]]
        else:
            entries = [pool[i] for i in idx]
        n += 1
        b = judge(base, root, entries, with_attr=(mode == "single" or len(entries) <= 2))
        if b:
            fails.append((entries, b[0][0]))
    out = []
    seen = set()
    for entries, kind in fails[:30]:
        def fl(es):
            bb = judge(base, root, list(es))
            return any(x[0] == kind for x in bb)

        def cands(es):
            for i in range(len(es)):
                if len(es) > 1:
                    yield es[:i] + es[i + 1:]
        def mk():
            if not fl(tuple(entries)):
                return None
            w = shrink.minimize(tuple(entries), cands, fl)
            bb = [x for x in judge(base, root, list(w)) if x[0] == kind][0]
            return Failure(kind, {"entries": [e["name"] for e in w], "database": [_rel(e["entry"], base) for e in w]}, expected=_relx(bb[1], base), observed=_relx(bb[2], base))
        f = robust(mk, {"entries": [e["name"] for e in entries]})
        if f.key() not in seen:
            seen.add(f.key())
            out.append(f)
    g = gcc_confirm(base, root, goods) if mode == "single" and idxs and idxs[0] == 0 else (0, [])
    shutil.rmtree(base, ignore_errors=True)
    return n, len(fails), out, g


def _rel(entry, base):
    return json.loads(json.dumps(entry).replace(base, "$BASE"))


def _relx(x, base):
    return json.loads(json.dumps(x, default=str).replace(base, "$BASE"))


REPRESENTATIVE = ["I-own-directory", "same-rel-file-from-sub", "same-rel-file-from-alt", "same-rel-I-from-src", "same-rel-I-from-alt", "absent/rel/rel-separate", "abs-root/abs/abs", "abs-build-inside/rel/rel-attached", "abs-build-outside/abs/rel-other",
                  "rel-build/rel/rel-separate", "rel-dotdot/redundant/rel-dotdot", "rel-dot/dot-rel/rel-dot", "abs-build-outside/rel/rel-attached"]


def run(tier):
    rep = Report(ID, "exploration")
    tmp = env.fresh_dir("c13probe")
    ngood = len(good_entries(tmp, make_tree(tmp)))
    jobs = [(list(range(i, min(ngood, i + 12))), "single") for i in range(0, ngood, 12)]
    npool = len(REPRESENTATIVE) + 7
    maxlen = 2 if tier == "quick" else 3
    seqs = [s for k in range(1, maxlen + 1) for s in itertools.product(range(npool), repeat=k)]
    if tier == "quick":   # seed-selected extension: all triples that start with a seed-chosen pool element
        first = env.SEED % npool
        seqs += [(first, a, b) for a in range(npool) for b in range(npool)]
    jobs += [(seqs[i:i + 60], "seq") for i in range(0, len(seqs), 60)]
    res = par.pmap(_work, jobs)
    for r in res:
        rep.add(r[2])
    gchk = sum(r[3][0] for r in res)
    gdis = [d for r in res for d in r[3][1]]
    rep.coverage.update({
        "evaluations": sum(r[0] for r in res), "distinct_nontrivial": ngood + len(seqs),
        "rule": "all %d single entries (7 directory spellings x 4 file spellings x 6 -I spellings), and all sequences of <=%d entries over %d representative "
                "entries + 7 skipped kinds; distinct = distinct databases" % (ngood, maxlen, len(REPRESENTATIVE)),
        "failing_cases": sum(r[1] for r in res), "single_entries": ngood, "sequences": len(seqs),
        "oracle_gcc": {"available": bool(GCC), "distinct_commands_confirmed": gchk, "disagreements": gdis[:5]},
        "samples": [{"entries": list(REPRESENTATIVE[:2]) + ["missing-file"]}],
        "exhaustive": True,
    })
    rep.assumptions = ["path model: file and -I are interpreted relative to `directory`, itself relative to the root when not absolute (confirmed with gcc -E run from that directory)",
                       "a skipped entry must produce exactly one WARNING that says it is ignored/skipped/unsupported"]
    return rep


def replay(witness, kind=None):
    base = env.fresh_dir("c13r")
    root = make_tree(base)
    pool = {e["name"]: e for e in good_entries(base, root) + skipped_entries(root)}
    entries = [pool[n] for n in witness["entries"]]
    b = judge(base, root, entries)
    return {"violates": bool(b), "detail": _relx(b, base)}
