"""C08 - translation units and platforms are analysed in isolation and compose.

S: the history is the sequence of compile commands processed so far in one finder.find run.
   BFS over all command sequences of length <= 3 for one platform and all pairs of sequences of
   length <= 2 for two platforms (thorough: three platforms) over an alphabet of commands on a
   code base that contains every leak channel in the code (macros defined by one TU and tested by
   another through a shared header, same-spelled headers in different directories, #pragma once
   and unguarded headers shared by TUs, a computed include whose spelling depends on token
   white space, per-command -D sets, a multi-pass compiler).  Transition = run the real
   finder.find on the extended configuration (fresh state, prefix replay).
   Invariant (differential): the association reached equals, per platform, the union of the
   associations of each command analysed alone in a fresh run.  On the same graph: every order
   of the same multiset reaches the same state; `-p` through the CLIs gives the projection.
"""
import copy
import itertools
import json
import os

from ..core import cli, codebase, env, par, shrink
from ..core.result import Failure, Report, robust

ID = "C08"

FILES = {
    "a.c": '#define FROM_A 1\n#include "shared.h"\nint a;\n',
    "b.c": '#include "shared.h"\nint b;\n#ifdef FROM_A\nint leak_a;\n#endif\n#ifdef H1\nint leak_h1;\n#endif\n',
    "shared.h": "#ifdef FROM_A\nint sa;\n#else\nint nsa;\n#endif\n#ifndef SHARED_ONCE\n#define SHARED_ONCE\nint once_body;\n#endif\n",
    "d1/t.c": '#include "h.h"\nint t1;\n',
    "d1/h.h": "int h1;\n#define H1\n",
    "d2/t.c": '#include "h.h"\nint t2;\n#ifdef H1\nint leak_h1;\n#endif\n',
    "d2/h.h": "int h2;\n",
    "once.h": "#pragma once\n#define ONCE_SEEN\nint po;\n#ifdef X\nint pox;\n#endif\n",
    "cnt.h": "int cnt;\n#ifdef X\nint cntx;\n#endif\n",
    "c.c": '#include "once.h"\n#include "once.h"\n#include "cnt.h"\nint c;\n#ifdef ONCE_SEEN\nint cseen;\n#else\nint cnot;\n#endif\n',
    "e.c": '#include "once.h"\n#ifdef X\nint ex;\n#endif\n#define STR(x) #x\n#define XSTR(x) STR(x)\n#include XSTR(P)\nint e;\n#ifdef ONCE_SEEN\nint eseen;\n#else\nint enot;\n#endif\n',
    "f.cu": "int f;\n#if defined(__CUDA_ARCH__) && __CUDA_ARCH__ >= 800\nint amp;\n#endif\n#ifdef __CUDACC__\nint cc;\n#endif\n#ifdef X\nint fx;\n#endif\n",
    "never.c": "int never;\n",
    # + a variadic macro whose #define directive (one shared tree node) is evaluated by every command that includes the header
    "lvl.h": "#define LEVEL BASE\n#if LEVEL > 1\nint hi;\n#else\nint lo;\n#endif\n#if defined(BASE) && BASE == 1\nint one;\n#endif\n"
             "#define SEL(a, ...) SEL2(__VA_ARGS__)\n#define SEL2(b, c) c\n#if SEL(0, 0, 1)\nint sel;\n#else\nint nosel;\n#endif\n",
    "g.c": '#include "lvl.h"\nint g;\n',
    "g2.c": '#include "lvl.h"\nint g2;\n',
    # the same file compiled with two -I lists that resolve its quoted include differently
    "cfgA/config.h": "#define FAST 1\nint cfg_a;\n", "cfgB/config.h": "int cfg_b;\n",
    "kern.c": '#include "config.h"\n#ifdef FAST\nint fast;\n#else\nint slow;\n#endif\n',
    # the same file, the same -D and -I, two different forced includes
    "pre1.h": "#define PRE 1\nint pre1;\n", "pre2.h": "#define PRE 2\nint pre2;\n",
    "fi.c": "#if PRE == 1\nint one;\n#elif PRE == 2\nint two;\n#endif\nint fi;\n",
}
COMMANDS = [
    ("a.c", "/usr/bin/gcc", []),
    ("b.c", "/usr/bin/gcc", []),
    ("d1/t.c", "/usr/bin/gcc", []),
    ("d2/t.c", "/usr/bin/gcc", []),
    ("c.c", "/usr/bin/gcc", []),
    ("e.c", "/usr/bin/gcc", ["-DX", "-DP=cnt.h"]),
    ("e.c", "/usr/bin/gcc", ["-DP=once.h"]),
    ("b.c", "/usr/bin/gcc", ["-DFROM_A"]),
    ("f.cu", "nvcc", ["--gpu-architecture=sm_80"]),
    ("f.cu", "nvcc", ["-DX"]),
    ("g.c", "/usr/bin/gcc", ["-DBASE=2"]),
    ("g2.c", "/usr/bin/gcc", ["-DBASE=1"]),
    ("kern.c", "/usr/bin/gcc", ["-I", "cfgA"]),
    ("kern.c", "/usr/bin/gcc", ["-I", "cfgB"]),
    ("fi.c", "/usr/bin/gcc", ["-include", "pre1.h"]),
    ("fi.c", "/usr/bin/gcc", ["-include", "pre2.h"]),
]

_entries = {}


def setup_root():
    root = env.fresh_dir("c08")
    codebase.write_tree(root, FILES)
    return root


def entries_for(root, ci):
    """Configuration entries of command ci, produced by the real load_database (cached per process+root)."""
    key = (root, ci)
    if key not in _entries:
        from codebasin import config

        f, comp, args = COMMANDS[ci]
        dbp = os.path.join(root, f"db{os.getpid()}_{ci}.json")
        with open(dbp, "w") as fh:
            json.dump([{"file": f, "directory": root, "arguments": [comp] + args + ["-c", f]}], fh)
        env.reset_compilers()
        _entries[key] = config.load_database(dbp, root)
        os.unlink(dbp)
    return copy.deepcopy(_entries[key])


def run_find(root, platforms):
    """platforms: {name: [command indices]} -> {rel: {line: frozenset(platforms)}} over the code base"""
    from codebasin import CodeBase, finder

    cfg = {p: [e for ci in seq for e in entries_for(root, ci)] for p, seq in platforms.items()}
    cb = CodeBase(root)
    st = finder.find(root, cb, cfg)
    return codebase.attribution(st, root, set(cb))


def freeze(att):
    return tuple(sorted((rel, tuple(sorted((ln, tuple(sorted(ps))) for ln, ps in lines.items()))) for rel, lines in att.items()))


def expected_union(singles, platforms):
    """Union per platform of the single-command associations."""
    out = {}
    for rel, lines in singles[0].items():
        out[rel] = {ln: set() for ln in lines}
    for p, seq in platforms.items():
        for ci in seq:
            for rel, lines in singles[ci].items():
                for ln, ps in lines.items():
                    if ps:
                        out[rel][ln].add(p)
    return {rel: {ln: frozenset(ps) for ln, ps in lines.items()} for rel, lines in out.items()}


def diff(exp, got):
    d = []
    for rel in sorted(set(exp) | set(got)):
        for ln in sorted(set(exp.get(rel, {})) | set(got.get(rel, {}))):
            a, b = exp.get(rel, {}).get(ln), got.get(rel, {}).get(ln)
            if a != b:
                d.append((rel, ln, sorted(a) if a is not None else None, sorted(b) if b is not None else None))
    return d


def _singles(root):
    return [run_find(root, {"p": [ci]}) for ci in range(len(COMMANDS))]


def _work(arg):
    jobs = arg
    root = setup_root()
    singles = _singles(root)
    # normalise the platform name of the singles to a marker
    out = []
    n = 0
    keys = set()
    for platforms in jobs:
        n += 1
        try:
            got = run_find(root, platforms)
        except Exception as e:  # noqa
            out.append((platforms, [("EXC", f"{type(e).__name__}: {e}")]))
            continue
        exp = expected_union(singles, platforms)
        keys.add(freeze(got))
        d = diff(exp, got)
        if d:
            out.append((platforms, d[:6]))
    fails = []
    seen = set()
    for platforms, d in out[:25]:
        f = robust(mk_failure, {"platforms": {p: [_cmd(ci) for ci in s] for p, s in platforms.items()}}, root, singles, platforms)
        if f and f.key() not in seen:
            seen.add(f.key())
            fails.append(f)
    return n, len(out), fails, keys


def mk_failure(root, singles, platforms):
    def bad(pl):
        try:
            got = run_find(root, pl)
        except Exception as e:  # noqa
            return [("EXC", str(e))]
        return diff(expected_union(singles, pl), got)

    def fails(w):
        return bool(bad({p: list(s) for p, s in w}))

    def cands(w):
        w = list(w)
        for i, (p, s) in enumerate(w):
            if len(w) > 1:
                yield tuple(w[:i] + w[i + 1:])
            for j in range(len(s)):
                if len(s) > 1 or len(w) > 1:
                    yield tuple(w[:i] + [(p, s[:j] + s[j + 1:])] + w[i + 1:])

    w = shrink.minimize(tuple((p, tuple(s)) for p, s in sorted(platforms.items())), cands, fails)
    pl = {p: list(s) for p, s in w}
    d = bad(pl)
    if not d:
        return None
    return Failure("composition", {"platforms": {p: [_cmd(ci) for ci in s] for p, s in pl.items()}, "indices": pl},
                   expected="union of the single-command analyses", observed=[list(x) for x in d[:8]])


def _cmd(ci):
    f, comp, args = COMMANDS[ci]
    return " ".join([os.path.basename(comp)] + args + ["-c", f])


def _projection(arg):
    """-p through the real front ends: summary / tree of a platform subset == projection of the full in-process result."""
    plats, subsets = arg
    root = setup_root()
    codebase.write_analysis(root, {p: [{"file": COMMANDS[ci][0], "args": COMMANDS[ci][2], "compiler": COMMANDS[ci][1]} for ci in seq] for p, seq in plats.items()})
    full = run_find(root, plats)
    out = []
    n = 0
    for sub in subsets:
        n += 1
        proj = {}
        for rel, lines in full.items():
            for ln, ps in lines.items():
                k = frozenset(ps & set(sub))
                proj[k] = proj.get(k, 0) + 1
        args = [x for p in sub for x in ("-p", p)]
        r = cli.run("codebasin", args + ["-R", "summary", "analysis.toml"], root)
        rows = {k: v for k, v, _, _ in cli.parse_summary(r["out"])["rows"] if v}
        if r["rc"] != 0 or rows != {k: v for k, v in proj.items() if v}:
            out.append(Failure("projection", {"platforms": {p: [_cmd(ci) for ci in s] for p, s in plats.items()}, "selected": list(sub), "tool": "codebasin -p"},
                               expected=sorted(([sorted(k), v] for k, v in proj.items() if v), key=str), observed=sorted(([sorted(k), v] for k, v in rows.items()), key=str) or r["out"][-300:]))
        r = cli.run("tree", args + ["analysis.toml"], root)
        legend, nodes = cli.parse_tree(r["out"])
        nodes = [x for x in nodes if "raw" not in x]
        used_total = sum(v for k, v in proj.items())
        if r["rc"] != 0 or not nodes or nodes[0]["sloc"] != str(used_total) or sorted(legend.values()) != sorted(p for p in sub if any(p in k for k in proj)):
            out.append(Failure("projection", {"platforms": {p: [_cmd(ci) for ci in s] for p, s in plats.items()}, "selected": list(sub), "tool": "cbi-tree -p"},
                               expected={"root sloc": used_total, "legend": sorted(p for p in sub if any(p in k for k in proj))},
                               observed={"root": nodes[0] if nodes else None, "legend": legend, "rc": r["rc"]}))
    return n, out


def run(tier):
    rep = Report(ID, "model_checking")
    nC = len(COMMANDS)
    idx = list(range(nC))
    jobs = []
    seqs1 = [list(s) for k in (1, 2, 3) for s in itertools.product(idx, repeat=k)]
    jobs += [{"p": s} for s in seqs1]
    seqs2 = [list(s) for k in (1, 2) for s in itertools.product(idx, repeat=k)]
    if tier == "quick":
        step = 6
        pairs = [(a, b) for i, a in enumerate(seqs2) for j, b in enumerate(seqs2) if (i + j + env.SEED) % step == 0]
    else:
        pairs = [(a, b) for a in seqs2 for b in seqs2]
    jobs += [{"p": a, "q": b} for a, b in pairs]
    if tier == "thorough":
        s1 = [[i] for i in idx]
        jobs += [{"p": a, "q": b, "r": c} for a in s1 for b in s1 for c in s1]
        jobs += [{"p": a, "q": b, "r": c, "s": [4]} for a in s1[:5] for b in seqs2[10:40] for c in s1[5:]]
    chunks = [jobs[i:i + 120] for i in range(0, len(jobs), 120)]
    res = par.pmap(_work, chunks)
    states = set()
    for r in res:
        rep.add(r[2])
        states |= r[3]
    # projections through the CLIs
    p3 = {"cpu": [0, 1, 4], "gpu": [8, 7, 3], "fpga": [5, 2]}
    subs = [list(c) for r in (1, 2, 3) for c in itertools.combinations(sorted(p3), r)]
    pj = [(p3, subs)]
    if tier == "thorough":
        pj.append(({"x": [6, 9], "y": [1], "z": [0, 2, 3]}, [list(c) for r in (1, 2, 3) for c in itertools.combinations(["x", "y", "z"], r)]))
    pres = par.pmap(_projection, pj)
    for r in pres:
        rep.add(r[1])
    n = sum(r[0] for r in res)
    rep.coverage.update({
        "states": len(states), "transitions": n, "traces_validated_against_impl": n + sum(r[0] for r in pres),
        "evaluations": n + sum(r[0] for r in pres), "distinct_nontrivial": len(states),
        "rule": "all command sequences of length <=3 over %d commands for one platform; %s pairs of sequences of length <=2 for two platforms%s; "
                "state = observable association (file, line, platform set); invariant = union of fresh single-command analyses; "
                "plus -p projections through codebasin and cbi-tree for every subset of a 3-platform analysis" % (
                    nC, "every sixth of all" if tier == "quick" else "all", "; triples of single commands for three platforms" if tier == "thorough" else ""),
        "commands": [_cmd(i) for i in idx], "histories": n, "failing_cases": sum(r[1] for r in res),
        "samples": [{"platforms": {"p": [_cmd(0), _cmd(1)]}}, {"platforms": {"p": [_cmd(2)], "q": [_cmd(3), _cmd(5)]}}],
        "exhaustive": True,
    })
    rep.assumptions = ["the differential oracle (implementation run alone from a fresh state) cannot see an error that is identical in both runs; C01-C05 cover those paths against external truth"]
    return rep


def replay(witness, kind=None):
    root = setup_root()
    if "indices" in witness:
        singles = _singles(root)
        pl = {p: list(s) for p, s in witness["indices"].items()}
        d = diff(expected_union(singles, pl), run_find(root, pl))
        return {"violates": bool(d), "differences": d[:10]}
    return {"violates": None}
