"""C06 - every counted line lands in exactly one platform set; all reports agree.

E: code bases built from a pool (files in nested directories, unused files, headers, file and
directory links; bodies guarded by P1/P2/P3 in every combination) x platform sets of size 0..4;
the same input goes through finder.find in-process (ground per-line attribution), `codebasin -R
summary`, `cbi-tree` (plain, --prune, -L 1, -L 2) and `cbi-cov compute`, all run in-process with
fd-level capture (a fixed slice also as real subprocesses).  Oracle: identities between the
outputs and the ground attribution - no hand-written expected values.
"""
import hashlib
import itertools
import json
import os
from fractions import Fraction

from ..core import cli, codebase, env, par
from ..core.result import Failure, Report
from . import c07

ID = "C06"

B = {
    "B0": "int a;\n",
    "B1": "int a;\n#ifdef P1\nint p1;\n#endif\n#ifdef P2\nint p2;\n#else\nint np2;\n#endif\n",
    "B2": "#if defined(P1) && defined(P3)\nint p13;\n#elif defined(P2)\nint p2;\n#endif\n/* c */\n\nint z; // t\n",
    "B3": '#include "inc/common.h"\n#ifdef P3\n#include "d/e/deep.h"\n#endif\nint m;\n',
}
# a file of 999 counted lines: with any other file the totals cross the 999 / 1000 boundary where cbi-tree starts to abbreviate ("1.0k")
B["BIG"] = "".join(f"int v{i};\n" for i in range(996)) + "#ifdef P1\nint p1;\n#endif\n"
H = {"H0": "int c;\n", "H1": "#pragma once\n#ifdef P1\nint hc1;\n#endif\nint hc;\n"}
DEEP = "int deep;\n#ifndef P2\nint nd;\n#endif\n"
PLAT = {
    "pA": [{"file": "main.c", "args": ["-DP1"]}, {"file": "util.c", "args": []}],
    "pB": [{"file": "main.c", "args": ["-DP2"]}, {"file": "util.c", "args": ["-DP2", "-DP3"]}],
    "pC": [{"file": "util.c", "args": ["-DP1", "-DP2", "-DP3"]}],
    "pD": [{"file": "main.c", "args": []}],
}
LINKS = {"none": {}, "file": {"lnk.c": "util.c"}, "file+dir": {"lnk.c": "util.c", "dl": "d", "d/up.h": "../inc/common.h"}}


def universe(tier):
    cbs = []
    for mb, ub, hb, lk, un in itertools.product(["B1", "B2", "B3"], ["B0", "B1", "B2", "B3"], ["H0", "H1"], list(LINKS), [False, True]):
        cbs.append((mb, ub, hb, lk, un))
    names = list(PLAT)
    psets = [list(c) for r in range(0, 5) for c in itertools.combinations(names, r)]
    if tier == "quick":
        pq = [[], ["pA"], ["pA", "pB"], ["pB", "pC", "pD"], names]
        cases = [(cb, ps) for i, cb in enumerate(cbs) for j, ps in enumerate(pq) if (i + j) % 3 == 0 or len(ps) in (0, 4)]
        # seed-selected extension: all 16 platform sets for a seed-chosen code base
        pick = cbs[env.SEED % len(cbs)]
        cases += [(pick, ps) for ps in psets]
    else:
        cases = [(cb, ps) for cb in cbs for ps in psets]
    cases += [(cb, ps) for cb in (("BIG", "B0", "H0", "none", False), ("BIG", "B1", "H1", "file+dir", True)) for ps in (["pA"], ["pA", "pB"], names)]
    return cases


def _hr(x):
    """SLOC column of cbi-tree: plain up to 3 digits, then one decimal with k / M / G"""
    d = len(str(x))
    if d <= 3:
        return str(x)
    for lim, div, suf in ((6, 10 ** 3, "k"), (9, 10 ** 6, "M"), (12, 10 ** 9, "G")):
        if d <= lim:
            return f"{x / div:.1f}{suf}"
    return "******"


def build(root, cb):
    mb, ub, hb, lk, un = cb
    files = {"main.c": B[mb], "util.c": B[ub], "inc/common.h": H[hb], "d/e/deep.h": DEEP, "README.txt": "not source\n"}
    if un:
        files["unused.c"] = "int un;\n#ifdef P1\nint un1;\n#endif\n"
    codebase.write_tree(root, files, LINKS[lk])
    return files


def ground(root, plats):
    """In-process attribution with the same inputs: {relpath: {line: frozenset}} for code-base members."""
    from codebasin import CodeBase, finder

    cfg = codebase.configuration(root, plats)
    cb = CodeBase(root)
    st = finder.find(root, cb, cfg)
    members = list(cb)
    att = {}
    for fn in members:
        rel = os.path.relpath(fn, root)
        m = st.get_map(fn)
        lines = {}
        for node in st.get_tree(fn).walk():
            ls = getattr(node, "lines", None)
            if ls:
                for ln in ls:
                    if ln in lines:
                        lines[ln] = ("DUP", ln)
                    else:
                        lines[ln] = frozenset(m[node])
        att[rel] = lines
    setmap = st.get_setmap(cb)
    return att, dict(setmap), members


def file_setmap(lines):
    sm = {}
    for ln, ps in lines.items():
        sm[ps] = sm.get(ps, 0) + 1
    return sm


def add_sm(a, b):
    for k, v in b.items():
        a[k] = a.get(k, 0) + v


def fmt6(x):
    return "nan" if x == c07.NAN else f"{float(x):6.2f}".strip()


def check_case(root, cb, plats, subprocess_too=False):
    """list of (kind, expected, observed)"""
    bad = []
    files = build(root, cb)
    platforms = {p: PLAT[p] for p in plats}
    an = codebase.write_analysis(root, platforms)
    try:
        att, setmap_impl, members = ground(root, plats)
    except Exception as e:  # noqa
        return [("ground-exception", "finder.find succeeds", f"{type(e).__name__}: {e}")]
    for rel, lines in att.items():
        if any(isinstance(v, tuple) for v in lines.values()):
            bad.append(("line-twice", "every counted line in exactly one node", rel))
    phys = {rel for rel in att if not os.path.islink(os.path.join(root, rel))}
    exp_sm = {}
    for rel in phys:
        add_sm(exp_sm, file_setmap(att[rel]))
    if {k: v for k, v in setmap_impl.items() if v} != {k: v for k, v in exp_sm.items() if v}:
        bad.append(("setmap", _sm(exp_sm), _sm(setmap_impl)))
    total = sum(exp_sm.values())
    # ---- codebasin summary
    r = cli.run("codebasin", ["-R", "summary", an], root)
    if r["rc"] != 0:
        bad.append(("summary-exit", 0, (r["rc"], r["out"][-300:])))
    else:
        s = cli.parse_summary(r["out"])
        rows = {}
        for ps, loc, pct, label in s["rows"]:
            if ps in rows:
                bad.append(("summary-row-twice", "one row per platform set", label))
            rows[ps] = (loc, pct)
            names = [x.strip() for x in label.strip("{}").split(",") if x.strip()]
            if names != sorted(names):
                bad.append(("summary-label", sorted(names), label))
        if {k: v[0] for k, v in rows.items() if v[0]} != {k: v for k, v in exp_sm.items() if v}:
            bad.append(("summary-rows", _sm(exp_sm), _sm({k: v[0] for k, v in rows.items()})))
        for ps, (loc, pct) in rows.items():
            if total and not c07._printed_ok(pct, Fraction(100 * loc, total)):
                bad.append(("summary-percent", f"{100 * loc / total:.2f}", pct))
        if s["metrics"].get("Total SLOC") != str(total):
            bad.append(("summary-total", total, s["metrics"].get("Total SLOC")))
        for key, ref in (("Code Divergence", c07.r_div), ("Coverage (%)", c07.r_cov), ("Avg. Coverage (%)", c07.r_avg)):
            if not c07._printed_ok(s["metrics"].get(key), ref(exp_sm)):
                bad.append(("summary-metric", f"{key} = {ref(exp_sm)}", s["metrics"].get(key)))
    # ---- cbi-tree
    allp = sorted(c07.r_platforms(exp_sm))
    outs = {}
    for tag, extra in (("plain", []), ("prune", ["--prune"]), ("L1", ["-L", "1"]), ("L2", ["-L", "2"])):
        r = cli.run("tree", extra + [an], root)
        if r["rc"] != 0:
            bad.append(("tree-exit", 0, (tag, r["rc"], r["err"][-300:])))
            continue
        legend, nodes = cli.parse_tree(r["out"])
        outs[tag] = (legend, [n for n in cli.tree_paths(nodes) if "raw" not in n])
    if "plain" in outs:
        legend, nodes = outs["plain"]
        if [legend[k] for k in sorted(legend)] != allp:
            bad.append(("tree-legend", allp, legend))
        bad += _check_tree(root, nodes, att, phys, exp_sm, allp, pruned=False)
        if "prune" in outs:
            used = {rel for rel in att if any(ps for ps in att[rel].values())}
            bad += _check_tree(root, outs["prune"][1], {k: v for k, v in att.items() if k in used}, phys & used, None, allp, pruned=True)
        for tag, k in (("L1", 1), ("L2", 2)):
            if tag in outs:
                want = [n for n in nodes if n["depth"] <= k]
                if [_row(n) for n in outs[tag][1]] != [_row(n) for n in want]:
                    bad.append(("tree-levels", [_row(n) for n in want][:6], [_row(n) for n in outs[tag][1]][:6]))
    # ---- cbi-cov (one database at a time)
    for p in plats[:2]:
        covp = os.path.join(root, f"cov-{p}.json")
        r = cli.run("cov", ["compute", "-S", root, f"{p}.json", "-o", covp], root)
        if r["rc"] != 0:
            bad.append(("cov-exit", 0, (r["rc"], r["err"][-300:])))
            continue
        cov = json.load(open(covp))
        os.unlink(covp)
        try:
            att1, _, _ = ground(root, [p])
        except Exception as e:  # noqa
            bad.append(("ground-exception", "finder.find succeeds", str(e)))
            continue
        seen = set()
        for ent in cov:
            rel = ent["file"]
            if rel in seen:
                bad.append(("cov-file-twice", "one entry per file", rel))
            seen.add(rel)
            with open(os.path.join(root, rel), "rb") as f:
                dig = hashlib.sha512(f.read()).hexdigest()
            if ent["id"] != dig:
                bad.append(("cov-id", dig[:16], ent["id"][:16]))
            u, n = ent["used_lines"], ent["unused_lines"]
            lines = att1.get(rel, {})
            if sorted(u) != sorted(ln for ln, ps in lines.items() if ps) or sorted(n) != sorted(ln for ln, ps in lines.items() if not ps) \
                    or len(set(u)) != len(u) or len(set(n)) != len(n) or set(u) & set(n):
                bad.append(("cov-lines", {"file": rel, "used": sorted(ln for ln, ps in lines.items() if ps), "unused": sorted(ln for ln, ps in lines.items() if not ps)},
                            {"used": u, "unused": n}))
        if seen != set(att1):
            bad.append(("cov-files", sorted(att1), sorted(seen)))
    if subprocess_too and "plain" in outs:
        r = cli.run_subprocess("codebasin", ["-R", "summary", an], root)
        s2 = cli.parse_summary(r["out"])
        if r["rc"] != 0 or {k: v for k, v, _, _ in s2["rows"] if v} != {k: v for k, v in exp_sm.items() if v}:
            bad.append(("subprocess-summary", _sm(exp_sm), r["out"][-400:] + r["err"][-200:]))
        # no -R at all = every report: the summary table must be there and be the same one
        r = cli.run("codebasin", [an], root)
        s3 = cli.parse_summary(r["out"])
        if r["rc"] != 0 or {k: v for k, v, _, _ in s3["rows"] if v} != {k: v for k, v in exp_sm.items() if v} or s3["metrics"].get("Total SLOC") != str(total):
            bad.append(("default-reports", _sm(exp_sm), (r["rc"], r["out"][-400:] + r["err"][-200:])))
        for junk in os.listdir(root):
            if junk.endswith("-dendrogram.png"):
                os.unlink(os.path.join(root, junk))
        # the other two front ends as real processes (python -m ...): same rows / same export as in-process
        r = cli.run_subprocess("tree", [an], root)
        try:
            nodes2 = [n for n in cli.tree_paths(cli.parse_tree(r["out"])[1]) if "raw" not in n]
        except Exception:  # noqa
            nodes2 = None
        if r["rc"] != 0 or nodes2 is None or [_row(n) for n in nodes2] != [_row(n) for n in outs["plain"][1]]:
            bad.append(("subprocess-tree", [_row(n) for n in outs["plain"][1]][:6], (r["rc"], r["out"][-300:] + r["err"][-200:])))
        if plats:
            covp = os.path.join(root, "cov-sub.json")
            r = cli.run_subprocess("cov", ["compute", "-S", root, f"{plats[0]}.json", "-o", covp], root)
            covi = os.path.join(root, "cov-inproc.json")
            r2 = cli.run("cov", ["compute", "-S", root, f"{plats[0]}.json", "-o", covi], root)
            try:
                same = r2["rc"] == 0 and json.load(open(covp)) == json.load(open(covi))
            except Exception:  # noqa
                same = False
            for p_ in (covp, covi):
                if os.path.exists(p_):
                    os.unlink(p_)
            if r["rc"] != 0 or not same:
                bad.append(("subprocess-cov", "the export of the in-process run", (r["rc"], r["err"][-300:])))
    return bad


def _row(n):
    return (n["path"], n["platforms"], n["sloc"], n["cov"], n["avg"])


def _sm(sm):
    return sorted(([sorted(k), v] for k, v in sm.items() if v), key=lambda x: (len(x[0]), x))


def _check_tree(root, nodes, att, phys, exp_sm, allp, pruned):
    bad = []
    by_path = {}
    for n in nodes:
        if n["path"] in by_path:
            bad.append(("tree-row-twice", "one row per path", "/".join(n["path"])))
        by_path[n["path"]] = n
    want_files = {tuple(rel.split("/")) for rel in att}
    got_files = {p for p, n in by_path.items() if not n["is_dir"]}
    if got_files != want_files:
        bad.append(("tree-files" + ("-pruned" if pruned else ""), sorted("/".join(p) for p in want_files), sorted("/".join(p) for p in got_files)))
        return bad
    root_sm = {}
    for rel in phys:
        add_sm(root_sm, file_setmap(att[rel]))
    tree_platforms = sorted(c07.r_platforms(root_sm))

    def expect_row(sm):
        plats = c07.r_platforms(sm)
        ps = "".join(chr(65 + i) if p in plats else "-" for i, p in enumerate(tree_platforms))
        tot = sum(sm.values())
        cov = c07.r_cov(sm, set(tree_platforms)) if tree_platforms else c07.r_cov(sm)
        avg = c07.r_avg(sm, set(tree_platforms)) if tree_platforms else c07.r_avg(sm)
        return ps, _hr(tot), cov, avg

    for p, n in by_path.items():
        rel = "/".join(p)
        if n["is_dir"]:
            sm = {}
            pref = rel + "/" if rel else ""
            for f in phys:
                if f.startswith(pref):
                    add_sm(sm, file_setmap(att[f]))
        else:
            sm = file_setmap(att[rel])
        ps, tot, cov, avg = expect_row(sm)
        if n["platforms"] != ps or n["sloc"] != tot or not c07._printed_ok(n["cov"], cov) or not c07._printed_ok(n["avg"], avg):
            bad.append(("tree-figures" + ("-pruned" if pruned else ""), {"path": rel or ".", "platforms": ps, "sloc": tot, "cov": fmt6(cov), "avg": fmt6(avg)},
                        {k: n[k] for k in ("platforms", "sloc", "cov", "avg")}))
    return bad


def _work(arg):
    cases, sub = arg
    root_base = env.fresh_dir("c06")
    n = 0
    out = []
    nontriv = 0
    pick = max(range(len(cases)), key=lambda j: len(cases[j][1])) if cases else 0      # the subprocess slice takes the case with most platforms
    for i, (cb, plats) in enumerate(cases):
        root = os.path.join(root_base, f"c{i}")
        os.makedirs(root)
        n += 1
        if len(plats) >= 2:
            nontriv += 1
        b = check_case(root, cb, plats, subprocess_too=(sub and i == pick))
        for kind, exp, obs in b[:2]:
            out.append(Failure(kind, {"codebase": list(cb), "platforms": plats}, expected=exp, observed=obs))
        import shutil
        shutil.rmtree(root, ignore_errors=True)
    return n, nontriv, out


def run(tier):
    rep = Report(ID, "exploration")
    cases = universe(tier)
    size = 6
    jobs = [(cases[i:i + size], i % (size * 8) == 0) for i in range(0, len(cases), size)]
    res = par.pmap(_work, jobs)
    seen = set()
    for r in res:
        for f in r[2]:
            k = (f["kind"], json.dumps(f["expected"], default=str)[:80])
            if f["kind"] not in seen or len(seen) < 40:
                seen.add(f["kind"])
                rep.add([f])
    n = sum(r[0] for r in res)
    rep.coverage.update({
        "evaluations": n * 7, "distinct_nontrivial": sum(r[1] for r in res),
        "rule": "code bases = main.c body x util.c body x header body x link decoration x unused file (144) crossed with platform sets of size 0..4 over 4 platform "
                "definitions (%s); per case 1 in-process find + summary + 4 tree runs + up to 2 cbi-cov runs; non-trivial = >= 2 platforms" % ("slice" if tier == "quick" else "all 16"),
        "cases": n, "failing_cases": sum(1 for r in res for f in r[2]),
        "samples": [{"codebase": list(cases[3][0]), "platforms": cases[3][1]}, {"codebase": list(cases[-1][0]), "platforms": cases[-1][1]}],
        "exhaustive": True,
    })
    rep.assumptions = ["ground per-line attribution comes from the real finder.find in-process; the identities check every aggregation layer above it",
                       "printed percentages accepted if they are a correct rounding of the exact value"]
    return rep


def replay(witness, kind=None):
    root = env.fresh_dir("c06r")
    b = check_case(root, tuple(witness["codebase"]), witness["platforms"])
    return {"violates": bool(b), "detail": [(k, e, o) for k, e, o in b[:5]]}
