"""Reference scanner for free-form Fortran (C17).

A physical line is counted iff it holds statement text, a directive sentinel comment
(`!` letters* `$` ...) or a preprocessor directive (first non-blank character '#', handled by
cpp before Fortran sees the line).  Blank lines and ordinary comments are not counted, also
when interleaved in a continued statement.  '!', '&', '/' and the other quote inside a character
literal are literal text; a literal continues across lines only with a trailing '&' and a leading
'&' on the next non-comment line.

Incremental (feed one physical line at a time); state = (open literal quote or None,
continuation pending).  IllFormed for what the Fortran standard forbids and the property's
quantifier excludes: a line whose only non-blank is '&', an unterminated literal, a literal
continuation line that does not start with '&', a continuation at end of file.
"""
import re


class IllFormed(Exception):
    pass


class FScanner:
    def __init__(self):
        self.lit = None        # open character literal: its quote
        self.cont = False      # the statement is being continued
        self.lineno = 0
        self.counted = []      # physical lines counted
        self.directives = []   # of those, the preprocessor directive lines
        self.ill = None

    def key(self):
        return (self.lit, self.cont)

    def _bad(self, why):
        self.ill = why
        raise IllFormed(why)

    def feed(self, line):
        if self.ill:
            raise IllFormed(self.ill)
        self.lineno += 1
        ln = self.lineno
        s = line[:-1] if line.endswith("\n") else line
        st = s.strip(" ")
        if st.startswith("##"):
            self._bad("'##' at the start of a line has no meaning in Fortran (excluded)")
        if st.startswith("#"):
            self.counted.append(ln)
            self.directives.append(ln)
            return
        if st == "":
            return
        if st.startswith("!") and (self.lit is None or self.cont):
            if re.match(r"![A-Za-z]*\$", st):
                self.counted.append(ln)
            return
        i = 0
        n = len(s)
        text = False
        if self.cont:
            while i < n and s[i] == " ":
                i += 1
            if i < n and s[i] == "&":
                i += 1
                j = i
                while j < n and s[j] == " ":
                    j += 1
                if j < n and s[j] == "#":
                    self._bad("continuation text starting with '#' (excluded: indistinguishable from a directive)")
            elif self.lit is not None:
                self._bad("character context continued without leading &")
        self.cont = False
        amp_pending = False    # an '&' seen with only blanks after it so far
        while i < n:
            ch = s[i]
            if self.lit is not None:
                text = True
                if amp_pending and ch != " ":
                    amp_pending = False
                if ch == self.lit:
                    self.lit = None
                elif ch == "&":
                    amp_pending = True
            else:
                if ch == " ":
                    pass
                elif ch == "!":
                    break
                else:
                    if amp_pending:
                        amp_pending = False
                    text = True
                    if ch == "&":
                        amp_pending = True
                    elif ch in "'\"":
                        self.lit = ch
            i += 1
        if amp_pending:
            self.cont = True
        if self.lit is not None and not self.cont:
            self._bad("unterminated character literal")
        if self.lit is not None and i < n:
            self._bad("comment after & in character context")
        # the statement text of this line without the continuation markers
        body = s[:i].strip(" ")
        if body.strip("& ") == "" and "&" in body:
            self._bad("line with only &")
        if text:
            self.counted.append(ln)

    def finish(self):
        if self.ill:
            raise IllFormed(self.ill)
        if self.cont or self.lit is not None:
            self._bad("continuation at end of file")
        return list(self.counted), list(self.directives)


def scan(text):
    r = FScanner()
    try:
        lines = text.split("\n")
        if lines and lines[-1] == "":
            lines.pop()
            lines = [x + "\n" for x in lines]
        else:
            lines = [x + "\n" for x in lines[:-1]] + [lines[-1]]
        for ln in lines:
            r.feed(ln)
        return r.finish(), None
    except IllFormed as e:
        return None, str(e)
