"""Reference preprocessor over a file tree for C04 / C18: include resolution with gcc's search
rules, object-like macros, simple conditionals, include guards / #pragma once, and an event log.

Restricted on purpose to the directive forms the universes use:
  #include "f" | <f> | NAME   (NAME an object-like macro whose body is "f" or <f>)
  #define NAME [body]   #undef NAME   #ifdef/#ifndef NAME   #if 0|1|defined(NAME)|!defined(NAME)
  #elif (same forms)   #else   #endif   #pragma once   #pragma <other>   #line/#warning/#error
  anything else after '#': an unknown directive (event), '#' alone: null directive
Results:
  attr    {path: set(line numbers attributed)}  - code lines in active groups; directive lines of
          reached chains; reached #define/#undef/#include/#pragma lines
  emitted [code line texts in emission order]    - comparable with gcc -E -P output
  events  [(kind, file, line, name, form)]       - missing-include (each time reached),
          unknown-directive (each textual occurrence in every file that is parsed)
"""
import os
import re


class Unsupported(Exception):
    pass


def read(path):
    with open(path) as f:
        return f.read().split("\n")


class Cpp:
    def __init__(self, quote_extra, angle_dirs, defines=None, once_by_realpath=True):
        """angle_dirs: directories searched for <f> in order (all -I, then all -isystem).
        quote includes search the includer's directory, then angle_dirs."""
        self.angle = list(angle_dirs)
        self.table = dict(defines or {})
        self.attr = {}
        self.emitted = []
        self.events = []
        self.once = set()
        self.parsed_files = set()
        self.depth = 0

    # -- resolution (stateless)
    def resolve(self, name, form, includer_dir):
        dirs = ([includer_dir] if form == "quote" else []) + self.angle
        for d in dirs:
            p = os.path.normpath(os.path.join(d, name))
            if os.path.isfile(p):
                return p
        return None

    def cond(self, expr):
        e = expr.strip()
        if e in ("0", "1"):
            return e == "1"
        m = re.fullmatch(r"(!?)\s*defined\s*\(?\s*(\w+)\s*\)?", e)
        if m:
            v = m.group(2) in self.table
            return (not v) if m.group(1) else v
        raise Unsupported(f"condition {expr!r}")

    def process(self, path):
        path = os.path.normpath(path)
        rp = os.path.realpath(path)
        if rp in self.once:
            return
        self.depth += 1
        if self.depth > 30:
            raise Unsupported("include depth")
        lines = read(path)
        if lines and lines[-1] == "":
            lines.pop()
        first_parse = rp not in self.parsed_files
        self.parsed_files.add(rp)
        used = self.attr.setdefault(rp, set())
        stack = []    # [parent_active, taken, active, else_seen]
        for ln, text in enumerate(lines, start=1):
            s = text.strip()
            active = stack[-1][2] if stack else True
            if not s:
                continue
            if not s.startswith("#"):
                if active:
                    used.add(ln)
                    self.emitted.append(s)
                continue
            m = re.match(r"#\s*(\w*)\s*(.*)$", s)
            d, rest = m.group(1), m.group(2).strip()
            if d in ("ifdef", "ifndef", "if"):
                if active:
                    used.add(ln)
                    v = (rest in self.table) if d == "ifdef" else (rest not in self.table) if d == "ifndef" else self.cond(rest)
                else:
                    v = False
                stack.append([active, v, v, False])
            elif d == "elif":
                f = stack[-1]
                if f[0]:
                    used.add(ln)
                if f[0] and not f[1]:
                    v = self.cond(rest)
                    f[2] = v
                    f[1] = v
                else:
                    f[2] = False
            elif d == "else":
                f = stack[-1]
                if f[0]:
                    used.add(ln)
                f[2] = f[0] and not f[1]
                f[1] = True
            elif d == "endif":
                f = stack.pop()
                if f[0]:
                    used.add(ln)
            elif d == "define":
                if active:
                    used.add(ln)
                    mm = re.match(r"(\w+)\s*(.*)$", rest)
                    self.table[mm.group(1)] = mm.group(2)
            elif d == "undef":
                if active:
                    used.add(ln)
                    self.table.pop(rest, None)
            elif d == "pragma":
                if active:
                    used.add(ln)
                    if rest == "once":
                        self.once.add(rp)
            elif d == "include":
                if active:
                    used.add(ln)
                    spec = rest
                    if not spec.startswith(('"', "<")):
                        spec = self.table.get(spec, "").strip()
                    if spec.startswith('"') and spec.endswith('"'):
                        name, form = spec[1:-1], "quote"
                    elif spec.startswith("<") and spec.endswith(">"):
                        name, form = spec[1:-1], "angle"
                    else:
                        raise Unsupported(f"include {rest!r}")
                    tgt = self.resolve(name, form, os.path.dirname(path))
                    if tgt is None:
                        self.events.append(("missing-include", rp, ln, name, form))
                    else:
                        self.process(tgt)
            elif d in ("line", "warning", "error"):
                if active:
                    used.add(ln)
                    if d == "error":
                        raise Unsupported("#error reached")
            elif d == "":
                if active:
                    used.add(ln)
            else:
                if active:
                    used.add(ln)
                if first_parse:
                    self.events.append(("unknown-directive", rp, ln, d, None))
        self.depth -= 1


def preprocess(tu, i_dirs, sys_dirs, defines=None, forced=()):
    """gcc order: all -I directories, then all -isystem directories."""
    c = Cpp(None, list(i_dirs) + list(sys_dirs), defines)
    for f in forced:
        c.process(f)
    c.process(tu)
    return c
