"""Reference scanner for C05: translation phases 2-3 applied literally.

Phase 2: every backslash immediately followed by a newline is deleted (wherever it is).
Phase 3: comments are replaced by one space; literals are opaque.  For every surviving
non-white character we remember the physical line it came from.

A *logical line* ends at a newline that is neither spliced nor inside a block comment.
It is a directive iff its first surviving non-white character is '#'.  A physical line is
counted iff it holds at least one surviving non-white character.

Incremental: feed(line) may be called line by line (S explorer) and the abstract state read
with key(); or scan(text) for a whole text (E explorer).
"""

CODE, STR, CHR, BLOCK, LINE = "code", "str", "chr", "block", "line"


class IllFormed(Exception):
    pass


class RefScanner:
    def __init__(self):
        self.mode = CODE
        self.esc = False          # inside a literal, previous surviving char was an unconsumed backslash
        self.slash = None         # physical line of a pending '/' in code (may still start a comment)
        self.star = False         # inside a block comment, previous surviving char was '*'
        self.first = None         # first surviving non-white char of the logical line
        self.lines = []           # counted physical lines of the current logical line
        self.ncode = 0            # surviving non-white chars seen in this logical line
        self.adj = False          # previous surviving char was a non-white code char (no blank/comment since)
        self.hashhash = False     # the logical line starts with the single token '##' (not a directive)
        self.last_spliced = False
        self.split_literal = False   # some backslash-newline fell inside a string / character literal
        self.lineno = 0
        self.out = []             # completed logical lines: (category, [lines])
        self.ill = None

    # -- helpers
    def _code(self, ch, ln, literal=False):
        if self.first is None:
            self.first = ch
        elif self.ncode == 1 and self.first == "#" and ch == "#" and self.adj and not literal:
            self.hashhash = True  # maximal munch: '##' is one token, so the first token is not '#'
        self.ncode += 1
        self.adj = True
        if not self.lines or self.lines[-1] != ln:
            if ln in self.lines:
                return
            self.lines.append(ln)

    def _emit(self):
        if self.lines:
            directive = self.first == "#" and not self.hashhash
            self.out.append(("CPP_DIRECTIVE" if directive else "SRC_NONBLANK", list(self.lines)))
        self.first = None
        self.lines = []
        self.ncode = 0
        self.adj = False
        self.hashhash = False

    def _bad(self, why):
        self.ill = why
        raise IllFormed(why)

    def _step(self, ch, ln):
        m = self.mode
        if m == CODE:
            if self.slash is not None:
                sl, self.slash = self.slash, None
                if ch == "/":
                    self.mode = LINE
                    self.adj = False
                    return
                if ch == "*":
                    self.mode = BLOCK
                    self.star = False
                    self.adj = False
                    return
                self._code("/", sl)
            if ch == "/":
                self.slash = ln
            elif ch == '"':
                self.mode = STR
                self._code(ch, ln)
            elif ch == "'":
                self.mode = CHR
                self._code(ch, ln)
            elif ch == "\\":
                self._bad("stray backslash")
            elif ch in " \t":
                self.adj = False
            else:
                self._code(ch, ln)
        elif m in (STR, CHR):
            if self.esc:
                self.esc = False
                if ch not in " \t":
                    self._code(ch, ln)
            elif ch == "\\":
                self.esc = True
                self._code(ch, ln)
            elif (ch == '"' and m == STR) or (ch == "'" and m == CHR):
                self.mode = CODE
                self._code(ch, ln)
            elif ch not in " \t":
                self._code(ch, ln)
        elif m == BLOCK:
            if self.star and ch == "/":
                self.mode = CODE
                self.star = False
            else:
                self.star = ch == "*"
        # LINE: ignore

    def feed(self, line):
        """line: one physical line, with or without its terminating newline."""
        if self.ill:
            raise IllFormed(self.ill)
        self.lineno += 1
        ln = self.lineno
        nl = line.endswith("\n")
        body = line[:-1] if nl else line
        spliced = body.endswith("\\")
        if spliced and not nl:
            self._bad("backslash at end of file")
        if spliced:
            body = body[:-1]
        self.last_spliced = spliced
        for ch in body:
            self._step(ch, ln)
        if not nl:
            return
        if spliced:
            if self.mode in (STR, CHR):
                self.split_literal = True
            return
        # a real newline character
        m = self.mode
        if m == CODE:
            if self.slash is not None:
                self._code("/", self.slash)
                self.slash = None
            self._emit()
        elif m in (STR, CHR):
            self._bad("newline in literal")
        elif m == BLOCK:
            self.star = False
        elif m == LINE:
            self.mode = CODE
            self._emit()

    def finish(self):
        if self.ill:
            raise IllFormed(self.ill)
        if self.last_spliced:
            self._bad("backslash-newline at end of file")
        if self.mode == BLOCK:
            self._bad("EOF in comment")
        if self.mode in (STR, CHR):
            self._bad("EOF in literal")
        if self.esc:
            self._bad("EOF after backslash")
        if self.slash is not None:
            self._code("/", self.slash)
            self.slash = None
        self._emit()
        return self.out

    def key(self):
        sl = None
        if self.slash is not None:
            sl = "counted" if self.slash in self.lines else "new"
        if self.first is None:
            first = None
        elif self.first != "#" or self.hashhash:
            first = "x"
        elif self.ncode == 1 and self.adj:
            first = "#?"          # a directly following '#' would still turn it into '##'
        else:
            first = "#"
        return (self.mode, self.esc, sl, self.star, first, bool(self.lines))


def split_lines(text):
    """Physical lines with their terminators kept (like iterating a file)."""
    out, cur = [], []
    for ch in text:
        cur.append(ch)
        if ch == "\n":
            out.append("".join(cur))
            cur = []
    if cur:
        out.append("".join(cur))
    return out


def scan(text):
    """Returns (logical_lines, None) or (None, reason) when the text is ill-formed."""
    r = RefScanner()
    try:
        for ln in split_lines(text):
            r.feed(ln)
        return r.finish(), None
    except IllFormed as e:
        return None, str(e)
