"""Reference semantics of #if expressions (ISO C 6.6 / 6.10.1): evaluation on an AST.

AST nodes (tuples):
  ("lit", spelling)            integer or character constant, C spelling
  ("id", name)                 identifier left after expansion -> 0
  ("mac", name, ast)           object-like macro standing for ast (prints as name)
  ("def", name, paren, value)  defined NAME / defined(NAME) -> value (0/1)
  ("un", op, a)   ("bin", op, a, b)   ("tern", c, a, b)
Values: (v, unsigned) with v a Python int in range, or v None = undefined behaviour /
implementation-defined (excluded by the property).  The *type* is always computed, since
?: converts to the common type even of the branch it does not evaluate.
"""
M = 1 << 64
IMAX = (1 << 63) - 1
IMIN = -(1 << 63)

ESC = {"n": 10, "t": 9, "0": 0, "\\": 92, "'": 39, '"': 34, "?": 63, "a": 7, "b": 8, "f": 12, "r": 13, "v": 11}

BIN_PREC = {
    "||": 2, "&&": 3, "|": 4, "^": 5, "&": 6, "==": 7, "!=": 7, "<": 8, "<=": 8, ">": 8, ">=": 8,
    "<<": 9, ">>": 9, "+": 10, "-": 10, "*": 11, "/": 11, "%": 11,
}
UNARY = ["+", "-", "!", "~"]
BINARY = list(BIN_PREC)


def parse_literal(sp):
    """C integer / character constant -> (value, unsigned) or None if not valid / diagnosed by gcc."""
    if sp.startswith("'"):
        body = sp[1:-1]
        if not body.startswith("\\"):
            return (ord(body), False) if len(body) == 1 else None
        e = body[1:]
        if e in ESC:
            return (ESC[e], False)
        if e[0] == "x":
            v = int(e[1:], 16)
        elif e[0] in "01234567":
            v = int(e, 8)
        else:
            return None
        return (v, False) if v < 128 else None      # plain char signedness is implementation-defined
    s = sp
    low = s.lower()
    suf = ""
    while low and low[-1] in "ul":
        suf = low[-1] + suf
        low = low[:-1]
    if suf not in ("", "u", "l", "ul", "lu", "ll", "ull", "llu"):
        return None
    # 'lL' / 'Ll' mixed-case long-long suffix is invalid
    body = s[: len(low)]
    rawsuf = s[len(low):]
    if "ll" in suf and not ("ll" in rawsuf or "LL" in rawsuf):
        return None
    if low.startswith("0x"):
        v, dec = int(low[2:], 16), False
    elif low.startswith("0b"):
        v, dec = int(low[2:], 2), False
    elif len(low) > 1 and low[0] == "0":
        v, dec = int(low, 8), False
    else:
        v, dec = int(low, 10), True
    uns = "u" in suf
    if v >= M:
        return None
    if v > IMAX and not uns:
        if dec:
            return None            # gcc: "integer constant is so large that it is unsigned"
        uns = True
    return (v, uns)


def _conv(a, b):
    """usual arithmetic conversions on two (v, uns)"""
    uns = a[1] or b[1]
    if not uns:
        return a[0], b[0], False
    x = None if a[0] is None else a[0] % M
    y = None if b[0] is None else b[0] % M
    return x, y, True


def _fit(v, uns):
    if v is None:
        return (None, uns)
    if uns:
        return (v % M, True)
    if v < IMIN or v > IMAX:
        return (None, False)       # signed overflow: undefined
    return (v, False)


def ev(n):
    t = n[0]
    if t == "lit":
        return parse_literal(n[1])
    if t == "id":
        return (0, False)
    if t == "mac":
        return ev(n[2])
    if t == "def":
        return (n[3], False)
    if t == "un":
        op = n[1]
        v, u = ev(n[2])
        if op == "!":
            return (None if v is None else int(v == 0), False)
        if v is None:
            return (None, u)
        if op == "+":
            return (v, u)
        if op == "-":
            return _fit(-v, u)
        if op == "~":
            return _fit(~v, u)
        raise ValueError(op)
    if t == "tern":
        c = ev(n[1])
        a, b = ev(n[2]), ev(n[3])
        x, y, u = _conv(a, b)
        if c[0] is None:
            return (None, u)
        return (x if c[0] != 0 else y, u)
    if t == "bin":
        op = n[1]
        a, b = ev(n[2]), ev(n[3])
        if op == "&&":
            if a[0] is None:
                return (None, False)
            if a[0] == 0:
                return (0, False)
            return (None if b[0] is None else int(b[0] != 0), False)
        if op == "||":
            if a[0] is None:
                return (None, False)
            if a[0] != 0:
                return (1, False)
            return (None if b[0] is None else int(b[0] != 0), False)
        if op in ("<<", ">>"):
            u = a[1]
            if a[0] is None or b[0] is None:
                return (None, u)
            cnt = b[0]
            if cnt < 0 or cnt >= 64:
                return (None, u)
            if op == "<<":
                if u:
                    return ((a[0] << cnt) % M, True)
                if a[0] < 0:
                    return (None, False)
                return _fit(a[0] << cnt, False)
            if u:
                return (a[0] >> cnt, True)
            if a[0] < 0:
                return (None, False)   # implementation-defined
            return (a[0] >> cnt, False)
        x, y, u = _conv(a, b)
        if op in ("<", "<=", ">", ">=", "==", "!="):
            if x is None or y is None:
                return (None, False)
            r = {"<": x < y, "<=": x <= y, ">": x > y, ">=": x >= y, "==": x == y, "!=": x != y}[op]
            return (int(r), False)
        if x is None or y is None:
            return (None, u)
        if op == "+":
            return _fit(x + y, u)
        if op == "-":
            return _fit(x - y, u)
        if op == "*":
            return _fit(x * y, u)
        if op in ("/", "%"):
            if y == 0:
                return (None, u)
            if not u and x == IMIN and y == -1:
                return (None, u)
            q = abs(x) // abs(y)
            if (x < 0) != (y < 0):
                q = -q
            return _fit(q if op == "/" else x - q * y, u)
        if op == "&":
            return _fit(x & y, u)
        if op == "|":
            return _fit(x | y, u)
        if op == "^":
            return _fit(x ^ y, u)
        raise ValueError(op)
    raise ValueError(t)


def prec(n):
    t = n[0]
    if t == "bin":
        return BIN_PREC[n[1]]
    if t == "tern":
        return 1
    if t == "un":
        return 12
    if t == "def" and not n[2]:
        return 12
    return 13


def show(n, full=False):
    """Token list; minimal parentheses unless full."""
    t = n[0]
    if t == "lit":
        return [n[1]]
    if t in ("id", "mac"):
        return [n[1]]
    if t == "def":
        return ["defined", "(", n[1], ")"] if n[2] else ["defined", n[1]]

    def sub(c, need):
        toks = show(c, full)
        if (full and c[0] in ("bin", "tern", "un")) or prec(c) < need:
            return ["("] + toks + [")"]
        return toks

    if t == "un":
        return [n[1]] + sub(n[2], 12)
    if t == "bin":
        p = BIN_PREC[n[1]]
        return sub(n[2], p) + [n[1]] + sub(n[3], p + 1)
    if t == "tern":
        return sub(n[1], 2) + ["?"] + (sub(n[2], 0)) + [":"] + sub(n[3], 1)
    raise ValueError(t)


def text(n, full=False):
    return " ".join(show(n, full))


def value_literal(v, uns):
    """C spelling of a value of the given type (for pinning `(E) == V`)."""
    if uns:
        return f"{v}u"
    if v == IMIN:
        return "( - 9223372036854775807 - 1 )"
    if v < 0:
        return f"( - {-v} )"
    return str(v)
