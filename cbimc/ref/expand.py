"""Reference macro expander (ISO C 6.10.3) with hide sets (Prosser's algorithm).

Tokens are (spelling, ws_before, hideset).  A macro table maps name ->
  ("obj", body_tokens) | ("fn", params, variadic, body_tokens)
params: list of names; if variadic the last name is the variadic parameter (__VA_ARGS__ or a
named one).  IllFormed is raised for what a preprocessor diagnoses (arity, bad paste, # not
followed by a parameter, ## at an end, unterminated invocation).
"""
import re

_PUNCT = ["...", "<<=", ">>=", "##", "<<", ">>", "<=", ">=", "==", "!=", "&&", "||", "->", "++", "--", "+=", "-=", "*=", "/=",
          "%=", "&=", "|=", "^=", "<:", ":>", "<%", "%>", "%:"]
_TOK = re.compile(
    r"""(?P<ws>[ \t]+)|(?P<str>"(?:[^"\\\n]|\\.)*")|(?P<chr>'(?:[^'\\\n]|\\.)*')|(?P<num>\.?[0-9](?:[eEpP][+-]|[A-Za-z0-9_.])*)|(?P<id>[A-Za-z_][A-Za-z0-9_]*)|(?P<p>"""
    + "|".join(re.escape(p) for p in _PUNCT) + r"""|.)""", re.S)


class IllFormed(Exception):
    pass


def lex(text):
    out = []
    ws = False
    for m in _TOK.finditer(text):
        if m.lastgroup == "ws":
            ws = True
            continue
        out.append((m.group(0), ws, frozenset()))
        ws = False
    return out


def kind(sp):
    m = _TOK.fullmatch(sp)
    return m.lastgroup if m else None


def is_id(sp):
    return bool(re.fullmatch(r"[A-Za-z_][A-Za-z0-9_]*", sp))


def parse_define(text):
    """'NAME body' | 'NAME(params) body' (as after #define) -> (name, macro)"""
    toks = lex(text)
    if not toks or not is_id(toks[0][0]):
        raise IllFormed("macro name")
    name = toks[0][0]
    rest = toks[1:]
    if rest and rest[0][0] == "(" and not rest[0][1]:
        params, variadic = [], False
        i = 1
        if rest[i][0] == ")":
            i += 1
        else:
            while True:
                t = rest[i][0]
                if t == "...":
                    params.append("__VA_ARGS__")
                    variadic = True
                    i += 1
                elif is_id(t):
                    params.append(t)
                    i += 1
                    if rest[i][0] == "...":
                        variadic = True
                        i += 1
                else:
                    raise IllFormed("parameter list")
                if rest[i][0] == ")":
                    i += 1
                    break
                if rest[i][0] != "," or variadic:
                    raise IllFormed("parameter list")
                i += 1
        body = rest[i:]
        _check_body(body, params)
        return name, ("fn", params, variadic, _strip(body))
    body = rest
    _check_body(body, None)
    return name, ("obj", _strip(body))


def _strip(body):
    if body:
        body = [(body[0][0], False, body[0][2])] + body[1:]
    return body


def _check_body(body, params):
    if body and (body[0][0] == "##" or body[-1][0] == "##"):
        raise IllFormed("## at end of body")
    if params is not None:
        for i, t in enumerate(body):
            if t[0] == "#" and (i + 1 >= len(body) or body[i + 1][0] not in params):
                raise IllFormed("# not followed by parameter")


def stringize(toks):
    parts = []
    for i, (sp, ws, _) in enumerate(toks):
        if i and ws:
            parts.append(" ")
        if kind(sp) in ("str", "chr"):
            sp = sp.replace("\\", "\\\\").replace('"', '\\"')
        parts.append(sp)
    return '"' + "".join(parts) + '"'


def paste(a, b):
    sp = a[0] + b[0]
    if _TOK.fullmatch(sp) is None or kind(sp) == "ws" or (kind(sp) == "p" and sp not in _PUNCT and len(sp) > 1):
        raise IllFormed(f"pasting {a[0]} and {b[0]}")
    # a single-character fallback match means "." matched one char only: len>1 punctuators must be listed
    return (sp, a[1], a[2] & b[2])


PM = ("", False, frozenset())      # placemarker


class Expander:
    def __init__(self, table, limit=20000):
        self.table = table
        self.steps = 0
        self.limit = limit

    def expand(self, toks):
        ts = list(toks)
        out = []
        while ts:
            self.steps += 1
            if self.steps > self.limit:
                raise IllFormed("expansion step limit")
            t = ts.pop(0)
            sp, ws, hs = t
            if not is_id(sp) or sp in hs or sp not in self.table:
                out.append(t)
                continue
            m = self.table[sp]
            if m[0] == "obj":
                rep = self.subst(m[1], [], False, [], hs | {sp})
                if rep:
                    rep[0] = (rep[0][0], ws, rep[0][2])
                ts = rep + ts
                continue
            # function-like: needs '(' as next token
            if not ts or ts[0][0] != "(":
                out.append(t)
                continue
            depth = 0
            args, cur, commas = [], [], []
            i = 0
            close_hs = None
            while True:
                if i >= len(ts):
                    raise IllFormed("unterminated invocation")
                a = ts[i]
                if a[0] == "(":
                    depth += 1
                    if depth > 1:
                        cur.append(a)
                elif a[0] == ")":
                    depth -= 1
                    if depth == 0:
                        args.append(cur)
                        close_hs = a[2]
                        break
                    cur.append(a)
                elif a[0] == "," and depth == 1:
                    args.append(cur)
                    commas.append(a)
                    cur = []
                else:
                    cur.append(a)
                i += 1
            ts = ts[i + 1:]
            params, variadic = m[1], m[2]
            actuals = self.bind(params, variadic, args, commas)
            rep = self.subst(m[3], params, variadic, actuals, (hs & close_hs) | {sp})
            if rep:
                rep[0] = (rep[0][0], ws, rep[0][2])
            ts = rep + ts
        return out

    @staticmethod
    def bind(params, variadic, args, commas=()):
        n = len(params)
        if n == 0:
            if len(args) == 1 and not args[0]:
                return []
            raise IllFormed("arity")
        if not variadic:
            if len(args) != n:
                raise IllFormed("arity")
            return args
        if len(args) < n - 1:
            raise IllFormed("arity")
        if len(args) == n - 1:
            return args + [[]]
        fixed = args[: n - 1]
        va = []
        for k, a in enumerate(args[n - 1:]):
            if k:
                va.append(commas[n - 2 + k] if len(commas) > n - 2 + k else (",", False, frozenset()))
            va.extend(a)
        return fixed + [va]

    def subst(self, body, params, variadic, actuals, hs):
        # 1. build operand lists
        seq = []       # list of [tokens] ; '##' markers as the string "##"
        n = len(body)
        i = 0
        while i < n:
            sp, ws, _ = body[i]
            if sp == "#" and params and i + 1 < n and body[i + 1][0] in params:
                a = actuals[params.index(body[i + 1][0])]
                seq.append([(stringize(a), ws, frozenset())])
                i += 2
                continue
            if sp == "##":
                seq.append("##")
                i += 1
                continue
            if params and sp in params:
                a = actuals[params.index(sp)]
                near = (i > 0 and body[i - 1][0] == "##") or (i + 1 < n and body[i + 1][0] == "##")
                if near:
                    lst = list(a) if a else [PM]
                else:
                    lst = Expander(self.table, self.limit - self.steps).expand(a)
                if lst:
                    lst = [(lst[0][0], ws, lst[0][2])] + lst[1:]
                seq.append(lst)
                i += 1
                continue
            seq.append([body[i]])
            i += 1
        # 2. apply ## left to right
        out = []
        j = 0
        while j < len(seq):
            item = seq[j]
            if item == "##":
                rhs = seq[j + 1] if j + 1 < len(seq) else None
                if not out or not rhs or rhs == "##":
                    raise IllFormed("## operand")
                a, b = out[-1], rhs[0]
                if a is PM or a[0] == "":
                    merged = b
                elif b is PM or b[0] == "":
                    merged = a
                else:
                    merged = paste(a, b)
                out[-1] = merged
                out.extend(rhs[1:])
                j += 2
                continue
            out.extend(item)
            j += 1
        out = [t for t in out if t[0] != ""]
        return [(sp, ws, h | hs) for sp, ws, h in out]


def expand_text(defines, invocation):
    """defines: list of '#define' payload strings; returns list of spellings or raises IllFormed."""
    table = {}
    try:
        for d in defines:
            name, m = parse_define(d)
            table[name] = m
        return [t[0] for t in Expander(table).expand(lex(invocation))]
    except (IndexError, ValueError, TypeError) as e:      # malformed definition (only reachable while shrinking)
        raise IllFormed(f"malformed: {e}")
