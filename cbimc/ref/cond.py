"""Reference conditional-inclusion machine (ISO C 6.10.1) for C01 / C17.

A program is a list of events (tuples):
  ("if", cond) ("ifdef", M) ("ifndef", M) ("elif", cond) ("else",) ("endif",)
  ("define", M, value) ("undef", M) ("code",)
cond is a key of CONDS.  A macro table maps NAME -> replacement text ("" = defined empty).
run() returns the list of per-event booleans "attributed to the platform" or raises IllFormed
for programs a real preprocessor would diagnose (the property excludes them).

Attribution rule (statement of C01): a code / #define / #undef line is attributed iff every
enclosing group is the selected branch of its chain; the directive lines of a chain
(#if.. #elif #else #endif) are attributed iff the chain is reached (its parent is active).
"""


class IllFormed(Exception):
    pass


def _val(t, m, seen=()):
    if m not in t:
        return 0
    v = t[m].strip()
    if v == "":
        raise IllFormed(f"#if with no expression / empty operand ({m} is empty)")
    if v[0].isalpha() or v[0] == "_":       # the replacement names another macro (or itself: then it stays an identifier, i.e. 0)
        if v in seen or v == m:
            return 0
        return _val(t, v, seen + (m,))
    return int(v, 0)


CONDS = {
    "0": lambda t: 0,
    "1": lambda t: 1,
    "A": lambda t: _val(t, "A"),
    "B": lambda t: _val(t, "B"),
    "defined(A)": lambda t: int("A" in t),
    "!defined(A)": lambda t: int("A" not in t),
    "A == 1": lambda t: int(_val(t, "A") == 1),
    "defined A && defined(B)": lambda t: int("A" in t and "B" in t),
    "A > B": lambda t: int(_val(t, "A") > _val(t, "B")),
    "!defined(B) || A": lambda t: 1 if "B" not in t else int(_val(t, "A") != 0),
    "A + B == 2": lambda t: int(_val(t, "A") + _val(t, "B") == 2),
    # these stay valid when A is defined empty (unary + / -): "-DA=" must not behave like "-DA"
    "A + 0": lambda t: _val0(t, "A"),
    "A - 1": lambda t: _val0(t, "A") - 1,
    # the same macro named twice in one expression (each occurrence is expanded)
    "A == 1 || A == 2": lambda t: int(_val(t, "A") in (1, 2)),
    # two operators of equal precedence: left to right (stays valid for an empty A: unary minus)
    "A - 1 - 1 == 0": lambda t: int(_val0(t, "A") - 2 == 0),
    # `defined NAME` without parentheses followed by operands that decide the result
    "!defined A && defined B": lambda t: int("A" not in t and "B" in t),
    # a zero divisor in an operand that is not evaluated (guard idiom)
    "A != 0 && 10 / A > 1": lambda t: int(_val(t, "A") != 0 and 10 // _val(t, "A") > 1),
}


def _val0(t, m):
    if m not in t or t[m].strip() == "":
        return 0
    return _val(t, m)
# NB: in `!defined(B) || A` gcc still *parses* A when the left side is true: an empty A is a syntax error.
_NEEDS_A_SYNTAX = {"!defined(B) || A"}


def evaluate(cond, table):
    if cond in _NEEDS_A_SYNTAX and "A" in table and table["A"].strip() == "":
        raise IllFormed("empty operand")
    return CONDS[cond](table)


class Machine:
    def __init__(self, table):
        self.table = dict(table)
        self.stack = []          # frames: [parent_active, taken, active, else_seen]

    def active(self):
        return self.stack[-1][2] if self.stack else True

    def step(self, ev):
        """Returns whether the line of this event is attributed."""
        k = ev[0]
        cur = self.active()
        if k in ("if", "ifdef", "ifndef"):
            if cur:
                if k == "if":
                    v = evaluate(ev[1], self.table) != 0
                elif k == "ifdef":
                    v = ev[1] in self.table
                else:
                    v = ev[1] not in self.table
            else:
                v = False
            self.stack.append([cur, v, v, False])
            return cur
        if k == "elif":
            if not self.stack or self.stack[-1][3]:
                raise IllFormed("#elif without #if / after #else")
            f = self.stack[-1]
            if f[0] and not f[1]:
                v = evaluate(ev[1], self.table) != 0
                f[2] = v
                f[1] = v
            else:
                f[2] = False
            return f[0]
        if k == "else":
            if not self.stack or self.stack[-1][3]:
                raise IllFormed("#else without #if / twice")
            f = self.stack[-1]
            f[2] = f[0] and not f[1]
            f[1] = True
            f[3] = True
            return f[0]
        if k == "endif":
            if not self.stack:
                raise IllFormed("#endif without #if")
            f = self.stack.pop()
            return f[0]
        if k == "define":
            if cur:
                if ev[1] in self.table and self.table[ev[1]].strip() != ev[2].strip():
                    raise IllFormed("incompatible redefinition")
                self.table[ev[1]] = ev[2]
            return cur
        if k == "undef":
            if cur:
                self.table.pop(ev[1], None)
            return cur
        if k == "code":
            return cur
        raise ValueError(k)

    def key(self):
        return (tuple(tuple(f) for f in self.stack), tuple(sorted(self.table.items())))


def run(program, table, closed=True):
    m = Machine(table)
    out = [m.step(ev) for ev in program]
    if closed and m.stack:
        raise IllFormed("unterminated #if")
    return out


def render(ev, lineno, fortran=False):
    k = ev[0]
    if k == "if":
        return f"#if {ev[1]}"
    if k == "ifdef":
        return f"#ifdef {ev[1]}"
    if k == "ifndef":
        return f"#ifndef {ev[1]}"
    if k == "elif":
        return f"#elif {ev[1]}"
    if k == "else":
        return "#else"
    if k == "endif":
        return "#endif"
    if k == "define":
        return f"#define {ev[1]} {ev[2]}".rstrip()
    if k == "undef":
        return f"#undef {ev[1]}"
    if k == "code":
        return f"x{lineno} = 1" if fortran else f"int x{lineno};"
    raise ValueError(k)


def interleave(directives):
    """code line first, and one after every directive, so that every group is observable"""
    prog = [("code",)]
    for d in directives:
        prog.append(d)
        prog.append(("code",))
    return prog


def gen_directives(maxdir, conds, defs, maxdepth=3, macros=("A",)):
    """All well-formed directive sequences with 1..maxdir directives (stack empty at the end)."""
    opens = [("if", c) for c in conds] + [("ifdef", m) for m in macros] + [("ifndef", m) for m in macros]
    elifs = [("elif", c) for c in conds]
    out = []

    def rec(prog, stack, remaining):
        if prog and not stack:
            out.append(list(prog))
        if remaining == 0:
            return
        depth = len(stack)
        # events that keep the depth
        if remaining - 1 >= depth:
            for ev in defs:
                prog.append(ev)
                rec(prog, stack, remaining - 1)
                prog.pop()
            if stack and not stack[-1]:
                for ev in elifs:
                    prog.append(ev)
                    rec(prog, stack, remaining - 1)
                    prog.pop()
                prog.append(("else",))
                stack[-1] = True
                rec(prog, stack, remaining - 1)
                stack[-1] = False
                prog.pop()
        if stack:
            prog.append(("endif",))
            top = stack.pop()
            rec(prog, stack, remaining - 1)
            stack.append(top)
            prog.pop()
        if depth < maxdepth and remaining - 1 >= depth + 1:
            for ev in opens:
                prog.append(ev)
                stack.append(False)
                rec(prog, stack, remaining - 1)
                stack.pop()
                prog.pop()

    rec([], [], maxdir)
    return out
