#!/usr/bin/env python3
"""tools/seed_eval.py <seed-id> <property> <patch> <demo> <needs...> -- <check ids...>

Confirms a seeded property-breaking change in scratch copies of /repo (never in /repo):
  1. the repository's pinned test suite passes with the change,
  2. the demonstration exits 1 with the change and 0 without,
then runs the given checks (quick tier, or $TIER) against the changed copy and records which report a VIOLATION.
Writes /verif/seeded/<seed-id>/{patch.diff, demo.py, meta.json}; the scratch copies are removed.
"""
import json
import os
import shutil
import subprocess
import sys
import tempfile

VERIF = os.path.dirname(os.path.dirname(os.path.abspath(__file__)))
PY = "/venv/bin/python"


def sh(cmd, cwd=None, env=None, timeout=3000):
    p = subprocess.run(cmd, cwd=cwd, env=env, capture_output=True, text=True, timeout=timeout)
    return p.returncode, p.stdout + p.stderr


def main():
    args = sys.argv[1:]
    cut = args.index("--")
    sid, prop, patch, demo = args[:4]
    needs = " ".join(args[4:cut])
    checks = args[cut + 1:]
    tier = os.environ.get("TIER", "quick")
    base = tempfile.mkdtemp(prefix="seed-", dir="/dev/shm")
    try:
        clean, mut = os.path.join(base, "clean"), os.path.join(base, "mut")
        for d in (clean, mut):
            sh(["rsync", "-a", "--exclude", ".git", "/repo/", d + "/"])
        rc, out = sh(["patch", "-p1", "-s", "-i", os.path.abspath(patch)], cwd=mut)
        if rc:
            print("PATCH DOES NOT APPLY", out)
            return 2
        env = dict(os.environ, PYTHONPATH=mut, PYTHONDONTWRITEBYTECODE="1")
        rc, out = sh([PY, "-m", "pytest", "-q", "-p", "no:cacheprovider"], cwd=mut, env=env)
        tests = out.strip().splitlines()[-1]
        tests_ok = rc == 0
        shutil.copy(demo, os.path.join(mut, "demo_seed.py"))
        shutil.copy(demo, os.path.join(clean, "demo_seed.py"))
        rc_mut, o1 = sh([PY, "-W", "ignore", "demo_seed.py"], cwd=mut, env=env)
        rc_clean, o2 = sh([PY, "-W", "ignore", "demo_seed.py"], cwd=clean, env=dict(os.environ, PYTHONPATH=clean, PYTHONDONTWRITEBYTECODE="1"))
        caught = {}
        for c in checks:
            e = dict(os.environ, VERIF_REPO=mut)
            rc, out = sh([os.path.join(VERIF, "check"), c, "--tier", tier], cwd=VERIF, env=e)
            viol = [ln for ln in out.splitlines() if ln.startswith("VIOLATION")]
            caught[c] = {"exit": rc, "violations": len(viol)}
        ok = tests_ok and rc_mut == 1 and rc_clean == 0
        meta = {
            "id": sid, "property": prop, "needs_to_manifest": needs,
            "confirmed": {"pinned_tests_with_change": tests, "tests_pass": tests_ok, "demo_exit_with_change": rc_mut, "demo_exit_without_change": rc_clean},
            "checks_run": {"tier": tier, "results": caught},
            "caught_by": sorted(c for c, r in caught.items() if r["violations"]),
            "commands": [f"rsync /repo -> scratch; patch -p1 < patch.diff; PYTHONPATH=<scratch> {PY} -m pytest -q -p no:cacheprovider",
                         "python demo.py (with and without the change)", f"VERIF_REPO=<scratch> ./check <id> --tier {tier}"],
        }
        print(json.dumps(meta, indent=1))
        if ok:
            d = os.path.join(VERIF, "seeded", sid)
            os.makedirs(d, exist_ok=True)
            for src, dst in ((patch, "patch.diff"), (demo, "demo.py")):
                if os.path.abspath(src) != os.path.join(d, dst):
                    shutil.copy(src, os.path.join(d, dst))
            with open(os.path.join(d, "meta.json"), "w") as f:
                json.dump(meta, f, indent=1)
        else:
            print("NOT KEPT: confirmation failed", o1[-500:], o2[-500:])
        return 0
    finally:
        shutil.rmtree(base, ignore_errors=True)


if __name__ == "__main__":
    sys.exit(main())
