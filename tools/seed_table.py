#!/usr/bin/env python3
"""Prints the markdown table of /verif/seeded/*/meta.json for DESIGN.md §10."""
import glob
import json
import os

HERE = os.path.dirname(os.path.dirname(os.path.abspath(__file__)))
# what had to change in the checks before the seed was caught (empty = caught by the check as first built)
STRENGTHENED = {
    "C04-computed-include-memo": "C04: X-macro phrases (`#undef/#define IMPL …` + `#include \"disp.h\"`) added to the directive alphabet",
    "C14-dup-bucket-by-size": "C14: `set.pop` owned by the scheduler, order of duplicate groups compared, two groups of equal byte size in the input",
    "C14-lazy-header-language": "C14: mixed C / Fortran input sharing a header",
    "C12-builtin-mode-wins": "C12: user configuration that redefines built-in mode / pass names",
    "C05-join-trailing-space": "C05/C17: state key extended by the class abstraction of `one_space_line.parts` (the mutant state collided with the initial state)",
    "C03-paste-clears-preexpansion": "C03: bodies of 3–5 phrases over a reduced alphabet + helper macros; `#if` queries moved to a separate gcc batch (errors inside an expansion were attributed to the definition)",
    "C08-ifnode-memo": "C08: commands whose `-D` reaches the tested macro only through another macro",
    "C01-empty-D-means-1": "C01: conditions that stay valid for an empty macro (`A + 0`, `A - 1`)",
    "C18-miss-poisons-both-forms": "C18: header present beside the includer only (angle form misses, quote form finds)",
    "C16-size-bucket-shallow-cmp": "C16: all files get the same mtime",
    "C16-visited-realpath-first-seen": "C16: variant with a link that is enumerated before its target",
    "C09-plain-pathspec": "C09: attribution predicate tightened to \"CBI relays pathspec.GitIgnoreSpec's own verdict\"",
    "C09-string-prefix-root": "C09: sibling directory whose name starts with the root's name (+ link / `..` spellings into it)",
    "C07-avgcov-substring": "C07: platform names one of which is a substring of another, for every seed",
    "C13-include-path-memo": "C13: the same relative `-I inc` from two different directories",
    "C13-whitespace-command": "C13: white-space-only `command`",
    "C15-include-dir-as-spelled": "C15: link in another directory beside a decoy header",
    "C15-tree-symlink-guard": "C15: cbi-tree root / directory totals compared with the canonical code base",
    "C17-no-flush-before-directive": "C17: conditional programs rendered as one `&`-continued statement cut by the directives",
    "C02-shift-type-from-count": "C02: third evaluation `(E) < 0` pins the signedness of the result",
    "C07w3-distance-union-cache-by-id": "C07: in-place edit histories on one dict object; failures that do not reproduce alone are no longer dropped",
    "C11w3-parse-memo-joined-key": "C11: call histories over vectors whose space-joined text coincides",
    "C15w3-class-level-path-cache": "C15: a directory link re-pointed between the analyses of one process",
    "C15w3-prefix-containment": "C15: the outside directory's name starts with the root's name (C09 already reported it)",
    "C16w3-lists-not-sets": "C16: code base with overlapping directories",
    "C03w3-needs-expansion-overwritten": "C03: helper macro whose expansion is a call of the macro under test",
    "C03w3-arg-expansion-memo": "C03: the same argument spelling inside and outside the expansion of an object-like macro",
    "C05w3-cleaner-reused-across-files": "all checks: failures that do not reproduce alone are reported as history-dependent instead of being dropped",
    "C02-endif-never-pops": "C02: nested chain selecting nothing before the bad `#elif` (C01 already reported it)",
    "C12w4-parser-built-once": "C12: two command lines parsed through one ArgumentParser object and one database (state carried in parser defaults)",
    "C12w4-realias-existing-alias": "C12: user configuration that re-points a name which is already an alias in the built-in files",
    "C18w4-include-memo-shared-per-platform": "C18: a header that is resolvable for one translation unit of a platform only",
    "C01w4-condition-memo-indirect": "C01: macro whose replacement names another macro, far macro (un)defined between two textually identical conditions",
    "C10w4-setmap-cache-ignores-excludes": "C10: one parser state asked for the setmap of several code bases that share the root and differ in exclusions",
    "C10w4-x-dropped-when-file-has-exclude": "C10: `-x` on the command line together with an exclude list (even an empty one) in the analysis file",
    "C08w4-include-resolved-on-node": "C08: one file compiled by two commands whose `-I` lists resolve the same quoted include to different files",
    "C14w4-parse-under-requested-name": "C14: link whose extension belongs to another language family than its target",
    "C14w4-casefold-sort": "C14: two paths that differ in case only",
    "C05w5-single-eol-flag": "C05: the product search cut the exploration at the first *timing* difference (a logical line emitted early) and attributed the prefix to a known finding; now a prefix divergence is reported through the simplest closing whose final answer is wrong, and explored further otherwise",
    "C10w5-angle-outside-root-skipped": "C10: variants that include the macro header in angle form; header outside the root compared with the same header inside and excluded",
    "C12w5-override-state-per-dest": "C12: a second pass-selecting `extend_match` rule with its own default, used together with the first",
    "C18w5-parser-cached-per-compiler": "C18: a later database entry repeating the unknown compiler (other path), the unknown flag and the missing file; exact multiplicity for database-level events",
    "C11w5-command-whitespace-normalised": "C11: values containing two blanks / a tab",
    "C11w5-shared-default-lists": "C11: call sequences (incl. `-isystem` without `-I` first) through one database and through one `ArgumentParser` object",
    "C01w5-noexpand-never-popped": "C01: a condition that names the same macro twice (C02 and C03 already reported it)",
    "C04w5-literal-include-cached-on-node": "C04: companion platform analysing the same TU first with the search list reversed (C08 already reported it)",
    "C14w5-shared-include-cache-frozenset": "C14: the same header name in two include directories searched in opposite order by two platforms (C04 already reported it)",
    "C02w6-ternary-third-operand-unconverted": "C02: `?:` with one signed and one unsigned branch and negative operands, alone and under every binary operator (the quick tier's ternary shapes had no unsigned leaf)",
    "C04w6-repeated-dir-moves-last": "C04: search lists that name a directory twice",
    "C04w6-cycle-guard": "C04: a header that includes itself, bounded by macros (three levels)",
    "C08w6-variadic-token-rewritten": "C08: a variadic macro defined in a header that several commands include",
    "C09w6-common-ancestor-root": "C09: code base made of two directories",
    "C13w6-file-memo-by-spelling": "C13: the same relative `file` spelling from different directories (two existing files and a missing one)",
    "C15w6-suffix-before-resolve": "C15 / C09: a link with a source suffix whose target is not a source file",
    "C11w6-parse-memo-drops-values": "C11: call histories with the same options and other separately given values (C13 already reported it)",
    "C18w6-computed-include-loses-angle": "C18: missing computed include whose macro expands to the angle form (C04 already reported it)",
    "C01w6-right-associative": "C01: a condition with two operators of equal precedence (`A - 1 - 1 == 0`; C02 already reported it)",
    "C09w7-abspath-before-resolve": "C09: `..` directly after a directory link whose target lies deeper than the link",
    "C12w7-implicit-options-filtered": "C12: implicit options given in two-token form (`-I /oi -D IMPL2`) on command lines that use the same flags in two-token form",
    "C13w7-parse-cache-resolved-in-place": "C13: two entries with byte-identical argument lists from two directories (relative file and relative `-I`)",
    "C13w7-file-fallback-to-root": "C13: an entry whose file spelling exists relative to the root but not relative to its directory",
    "C15w7-once-key-only-for-links": "C15: `#pragma once` header re-included through a directory link (the header itself is no link)",
    "C04w7-found-incl-per-platform": "C04: for half of the two-directory search lists the companion command belongs to the same platform (twin translation unit, list reversed; expectation = union) — C08 and C13 already reported it",
    "C01w7-expansion-skipped-when-nothing-defined": "C01: `!defined A && defined B` (paren-less `defined` followed by operands that decide)",
    "C01w7-div-by-zero-raises": "C01: guard idiom `A != 0 && 10 / A > 1` (C02 already reported it)",
    "C10w8-walk-skips-by-basename": "C10: two directories of the same name at different depths, with `/gen/`, `/gen` and `gen/` (C09 already reported it)",
    "C10w8-forced-include-not-inserted": "C10: a macro header that one command reaches through `-include` only",
    "C12w8-entry-dedup-ignores-include-files": "C12: end-to-end case with a user-defined pass that differs from the default pass in its forced include only; C08: the same file with two different `-include` options",
    "C13w8-own-directory-dropped-from-I": "C13: `-I .` naming the compiled file's own directory, needed by an angle include",
    "C14w8-process-wide-miss-cache": "C14: a platform that cannot reach a header the others find through `-I`; a repeat of the same schedule in one process that differs is now a violation of its own (it used to stop the check as a harness error) — C18 already reported it",
    "C10w9-excludes-sorted-set": "C10: order-sensitive exclude lists (pattern, then the negation that re-includes from it) always go through the three front ends; the rendering itself had silently dropped out when same-named sub-directories were added and is now anchored to the top level",
    "C14w9-quote-include-cache-by-file": "C14: a quoted include that two platforms resolve through different `-I` directories (C08 already reported it)",
    "C03wA-nonlast-vararg-not-preexpanded": "C03: a nested call of the same macro in a variable argument that is not the last one",
    "C17wA-sentinel-inside-continuation": "C17: the product state now includes how many lines the reference has counted that the implementation has not credited (two histories that differ in it were merged before the difference could surface at the end of the statement)",
    "C11-split-fast-path": "C11: backslash-escaped and double-quoted renderings of the command string",
}


def main():
    rows = []
    for f in sorted(glob.glob(os.path.join(HERE, "seeded", "*", "meta.json"))):
        m = json.load(open(f))
        own = m["property"]
        res = m["checks_run"]["results"]
        caught = ", ".join(m["caught_by"]) or "**none**"
        rows.append(f"| `{m['id']}` | {own} | {m['needs_to_manifest']} | {caught} | {STRENGTHENED.get(m['id'], '—')} |")
    print("| seeded change | breaks | needs to manifest | quick checks that report it | check strengthened first? |")
    print("|---|---|---|---|---|")
    print("\n".join(rows))


if __name__ == "__main__":
    main()
