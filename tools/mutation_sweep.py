#!/usr/bin/env python3
"""tools/mutation_sweep.py gen|tests|checks|report  - machine-made detection test of the checks.

This is NOT a verification step (no property is decided here); it measures the checks.  Small syntactic
changes (comparison / boolean operator swaps, dropped `not`, off-by-one constants, negated conditions,
deleted call statements, +/- swaps) are applied one at a time to scratch copies of /repo (never to /repo):

  gen     enumerate the mutants of the anchored source files      -> $OUT/mutants.json
  tests   run the repository's pinned suite on every mutant       -> $OUT/tests.jsonl   (killed / survived)
  checks  for mutants the suite does not notice: run the quick checks mapped to the mutated file, stop at
          the first VIOLATION                                      -> $OUT/checks.jsonl
  report  table per file / per check, list of survivors          (stdout, markdown)

OUT defaults to /verif/seeded/_sweep.  Everything heavy happens under /dev/shm and is removed.
"""
import ast
import concurrent.futures as cf
import json
import os
import re
import shutil
import subprocess
import sys
import tempfile

VERIF = os.path.dirname(os.path.dirname(os.path.abspath(__file__)))
OUT = os.environ.get("OUT", os.path.join(VERIF, "seeded", "_sweep"))
REPO = "/repo"
PY = "/venv/bin/python"
FILES = {
    "codebasin/preprocessor.py": ["C03", "C02", "C01", "C04", "C08", "C18", "C15"],
    "codebasin/file_source.py": ["C05", "C17"],
    "codebasin/file_parser.py": ["C05", "C17", "C01", "C18", "C06"],
    "codebasin/platform.py": ["C04", "C18", "C08", "C01"],
    "codebasin/finder.py": ["C01", "C10", "C08", "C15", "C06", "C04", "C17", "C14"],
    "codebasin/config.py": ["C13", "C11", "C12", "C18"],
    "codebasin/report.py": ["C16", "C07", "C06", "C14", "C15"],
    "codebasin/__init__.py": ["C09", "C13", "C10", "C16", "C14", "C15", "C11"],
    "codebasin/__main__.py": ["C10", "C08", "C16", "C06", "C18", "C14"],
    "codebasin/tree.py": ["C10", "C08", "C06", "C15"],
    "codebasin/coverage/__main__.py": ["C06", "C10"],
    "codebasin/language.py": ["C09", "C17", "C14"],
}
CMP = {"==": "!=", "!=": "==", "<": "<=", "<=": "<", ">": ">=", ">=": ">", "in": "not in", "not in": "in", "is": "is not", "is not": "is"}
CMP_RX = re.compile(r"(not\s+in|is\s+not|==|!=|<=|>=|<|>|\bin\b|\bis\b)")


class Src:
    def __init__(self, text):
        self.text = text
        self.lines = text.split("\n")
        self.off = [0]
        for ln in self.lines:
            self.off.append(self.off[-1] + len(ln.encode()) + 1)
        self.bytes = text.encode()

    def pos(self, lineno, col):
        return self.off[lineno - 1] + col

    def span(self, node):
        return self.pos(node.lineno, node.col_offset), self.pos(node.end_lineno, node.end_col_offset)

    def get(self, a, b):
        return self.bytes[a:b].decode()


def mutants_of(path, text):
    src = Src(text)
    tree = ast.parse(text)
    out = []

    def add(a, b, new, op, node):
        old = src.get(a, b)
        if old != new:
            out.append({"file": path, "a": a, "b": b, "old": old, "new": new, "op": op, "line": node.lineno})

    doc_consts = set()
    for n in ast.walk(tree):
        if isinstance(n, (ast.FunctionDef, ast.ClassDef, ast.Module)) and n.body and isinstance(n.body[0], ast.Expr) and isinstance(n.body[0].value, ast.Constant):
            doc_consts.add(id(n.body[0]))
    parents = {}
    for n in ast.walk(tree):
        for c in ast.iter_child_nodes(n):
            parents[id(c)] = n
    for n in ast.walk(tree):
        if isinstance(n, ast.Compare) and len(n.ops) == 1:
            a = src.span(n.left)[1]
            b = src.span(n.comparators[0])[0]
            mid = src.get(a, b)
            m = CMP_RX.search(mid)
            if m:
                tok = re.sub(r"\s+", " ", m.group(1))
                if tok in CMP:
                    add(a + len(mid[:m.start()].encode()), a + len(mid[:m.end()].encode()), CMP[tok], "cmp", n)
        elif isinstance(n, ast.BoolOp):
            for l, r in zip(n.values, n.values[1:]):
                a = src.span(l)[1]
                b = src.span(r)[0]
                mid = src.get(a, b)
                m = re.search(r"\b(and|or)\b", mid)
                if m:
                    add(a + m.start(), a + m.end(), "or" if m.group(1) == "and" else "and", "bool", n)
        elif isinstance(n, ast.UnaryOp) and isinstance(n.op, ast.Not):
            a, b = src.span(n)
            oa, ob = src.span(n.operand)
            add(a, b, "(" + src.get(oa, ob) + ")", "drop-not", n)
        elif isinstance(n, ast.Constant) and not isinstance(parents.get(id(n)), ast.JoinedStr):
            a, b = src.span(n)
            if n.value is True:
                add(a, b, "False", "const", n)
            elif n.value is False:
                add(a, b, "True", "const", n)
            elif isinstance(n.value, int) and not isinstance(n.value, bool) and -2 <= n.value <= 3:
                add(a, b, str(n.value + 1), "const", n)
                if n.value >= 1:
                    add(a, b, str(n.value - 1), "const", n)
        elif isinstance(n, (ast.If, ast.While)) and not isinstance(n.test, (ast.Compare, ast.BoolOp, ast.UnaryOp, ast.Constant)):
            a, b = src.span(n.test)
            add(a, b, "(not (" + src.get(a, b) + "))", "negate", n)
        elif isinstance(n, ast.IfExp) and not isinstance(n.test, (ast.Compare, ast.BoolOp, ast.UnaryOp, ast.Constant)):
            a, b = src.span(n.test)
            add(a, b, "(not (" + src.get(a, b) + "))", "negate", n)
        elif isinstance(n, ast.Expr) and isinstance(n.value, ast.Call) and id(n) not in doc_consts:
            a, b = src.span(n)
            callee = src.get(*src.span(n.value.func))
            if not re.match(r"(log|logging|logger)\.(debug|info)$|print$|warnings\.", callee) and "add_argument" not in callee:
                add(a, b, "pass", "del-call", n)
        elif isinstance(n, ast.AugAssign):
            a, b = src.span(n)
            add(a, b, "pass", "del-aug", n)
        elif isinstance(n, (ast.Break, ast.Continue)):
            a, b = src.span(n)
            add(a, b, "pass", "del-jump", n)
        elif isinstance(n, ast.BinOp) and isinstance(n.op, (ast.Add, ast.Sub)):
            if any(isinstance(x, (ast.Constant, ast.JoinedStr)) and isinstance(getattr(x, "value", None), str) for x in (n.left, n.right)) or isinstance(n.left, ast.JoinedStr) or isinstance(n.right, ast.JoinedStr):
                continue
            if any(isinstance(x, (ast.List, ast.Tuple, ast.ListComp)) for x in (n.left, n.right)):
                continue
            a = src.span(n.left)[1]
            b = src.span(n.right)[0]
            mid = src.get(a, b)
            m = re.search(r"[+-]", mid)
            if m:
                add(a + m.start(), a + m.end(), "-" if m.group(0) == "+" else "+", "arith", n)
    tops = [(n.lineno, n.end_lineno, n.name) for n in tree.body if isinstance(n, (ast.ClassDef, ast.FunctionDef))]
    for m in out:
        m["scope"] = next((name for lo, hi, name in tops if lo <= m["line"] <= hi), "<module>")
    # stable order and ids
    out.sort(key=lambda m: (m["a"], m["op"], m["new"]))
    return out


# which quick checks exercise a top-level scope (first match wins); default = the file's list in FILES
SCOPE_CHECKS = [
    ("codebasin/preprocessor.py", r"Lexer|.*Constant|Token|Identifier|Operator|Punctuator|Unknown", ["C03", "C02"]),
    ("codebasin/preprocessor.py", r"Macro.*|ExpanderHelper|macro_from_definition_string|make_macro", ["C03", "C01"]),
    ("codebasin/preprocessor.py", r"ExpressionEvaluator", ["C02", "C01"]),
    ("codebasin/preprocessor.py", r"IfNode|ElIfNode|ElseNode|EndIfNode|DefineNode|UndefNode|CodeNode|Node|FileNode|DirectiveNode|SourceTree", ["C01", "C08", "C06"]),
    ("codebasin/preprocessor.py", r"Include.*|PragmaNode|UnrecognizedDirectiveNode", ["C04", "C18", "C15"]),
    ("codebasin/preprocessor.py", r"DirectiveParser|Parser", ["C01", "C03", "C04", "C18"]),
    ("codebasin/file_source.py", r".*asm.*", []),          # assembly sources: no listed property covers them
    ("codebasin/file_source.py", r".*fortran.*", ["C17"]),
    ("codebasin/file_source.py", r"c_.*", ["C05"]),
    ("codebasin/report.py", r"find_duplicates|duplicates", ["C16", "C14"]),
    ("codebasin/report.py", r"coverage|average_coverage|distance|divergence|extract_platforms|normalized_utilization|summary|clustering", ["C07", "C06"]),
    ("codebasin/report.py", r"FileTree.*|files|_.*", ["C06", "C15", "C14"]),
]


def checks_for(m):
    for f, rx, cs in SCOPE_CHECKS:
        if m["file"] == f and re.fullmatch(rx, m.get("scope", "")):
            return cs
    return FILES[m["file"]]


def gen():
    os.makedirs(OUT, exist_ok=True)
    allm = []
    for f in FILES:
        text = open(os.path.join(REPO, f)).read()
        ms = mutants_of(f, text)
        for i, m in enumerate(ms):
            m["id"] = "%s:%d:%s:%d" % (os.path.basename(f) if "coverage" not in f else "coverage_main.py", m["line"], m["op"], i)
        allm += ms
    head = subprocess.run(["git", "-C", REPO, "rev-parse", "HEAD"], capture_output=True, text=True).stdout.strip()
    json.dump({"repo_head": head, "mutants": allm}, open(os.path.join(OUT, "mutants.json"), "w"), indent=0)
    by = {}
    for m in allm:
        by[m["file"]] = by.get(m["file"], 0) + 1
    print(len(allm), by)


_scratch = None


def scratch():
    global _scratch
    if _scratch is None:
        _scratch = tempfile.mkdtemp(prefix="msw-%s-" % os.environ.get("MSW_TAG", "x"), dir="/dev/shm")
        subprocess.run(["rsync", "-a", "--exclude", ".git", REPO + "/", _scratch + "/"], check=True)
    return _scratch


_base = {}


def base(file):
    """The file as it was at the commit the mutant list was made from (the list stays valid if /repo moves on)."""
    if file not in _base:
        head = json.load(open(os.path.join(OUT, "mutants.json")))["repo_head"]
        _base[file] = subprocess.run(["git", "-C", REPO, "show", f"{head}:{file}"], capture_output=True, check=True).stdout
    return _base[file]


def apply(m, d):
    p = os.path.join(d, m["file"])
    orig = base(m["file"])
    assert orig[m["a"]:m["b"]].decode() == m["old"], m
    open(p, "wb").write(orig[:m["a"]] + m["new"].encode() + orig[m["b"]:])
    return orig


def restore(m, d, orig):
    open(os.path.join(d, m["file"]), "wb").write(orig)


def run_tests(m):
    d = scratch()
    orig = apply(m, d)
    try:
        try:
            compile(open(os.path.join(d, m["file"])).read(), m["file"], "exec")
        except SyntaxError:
            return m["id"], "invalid"
        env = dict(os.environ, PYTHONPATH=d, PYTHONDONTWRITEBYTECODE="1")
        try:
            p = subprocess.run([PY, "-m", "pytest", "-q", "-x", "-p", "no:cacheprovider"], cwd=d, env=env, capture_output=True, text=True, timeout=120)
            return m["id"], "survived" if p.returncode == 0 else "killed"
        except subprocess.TimeoutExpired:
            return m["id"], "killed-timeout"
    finally:
        restore(m, d, orig)
        for junk in ("cbi.log",):
            try:
                os.unlink(os.path.join(d, junk))
            except OSError:
                pass


def load():
    return json.load(open(os.path.join(OUT, "mutants.json")))["mutants"]


def done(fn):
    r = {}
    p = os.path.join(OUT, fn)
    if os.path.exists(p):
        for ln in open(p):
            j = json.loads(ln)
            r[j["id"]] = j
    return r


def tests():
    ms = load()
    have = done("tests.jsonl")
    todo = [m for m in ms if m["id"] not in have]
    with open(os.path.join(OUT, "tests.jsonl"), "a") as fh, cf.ProcessPoolExecutor(int(os.environ.get("W", "12"))) as ex:
        for mid, res in ex.map(run_tests, todo, chunksize=4):
            fh.write(json.dumps({"id": mid, "tests": res}) + "\n")
            fh.flush()
    _cleanup()


def run_checks(m):
    d = scratch()
    orig = apply(m, d)
    res = {}
    caught = None
    try:
        for c in checks_for(m):
            env = dict(os.environ, VERIF_REPO=d, VERIF_NPROC=os.environ.get("CHECK_NPROC", "4"), VERIF_SHRINK_BUDGET="20")
            try:
                p = subprocess.run([os.path.join(VERIF, "check"), c, "--tier", "quick"], cwd=VERIF, env=env, capture_output=True, text=True, timeout=600)
                v = sum(1 for ln in p.stdout.splitlines() if ln.startswith("VIOLATION"))
                res[c] = {"exit": p.returncode, "violations": v}
                if v:
                    caught = c
                    break
                if p.returncode not in (0, 1):
                    res[c]["tail"] = (p.stdout + p.stderr)[-300:]
            except subprocess.TimeoutExpired:
                res[c] = {"exit": "timeout"}
                caught = c + "(hang)"
                break
        return m["id"], caught, res
    finally:
        restore(m, d, orig)


def checks():
    ms = {m["id"]: m for m in load()}
    t = done("tests.jsonl")
    have = done("checks.jsonl")
    todo = [ms[i] for i, r in t.items() if r["tests"] == "survived" and i not in have and i in ms and checks_for(ms[i])]
    step = int(os.environ.get("EVERY", "1"))
    off = int(os.environ.get("OFFSET", "0"))
    todo = [m for k, m in enumerate(todo) if k % step == off]
    print("to evaluate:", len(todo), flush=True)
    # checks write evidence/ and replays/ of the tree they run from: work on a private copy of /verif
    with open(os.path.join(OUT, "checks.jsonl"), "a") as fh, cf.ProcessPoolExecutor(int(os.environ.get("W", "4"))) as ex:
        for mid, caught, res in ex.map(run_checks, todo):
            fh.write(json.dumps({"id": mid, "caught_by": caught, "results": res}) + "\n")
            fh.flush()
    _cleanup()


def run_missing(arg):
    m, prev = arg
    d = scratch()
    orig = apply(m, d)
    res = dict(prev)
    caught = None
    try:
        for c in checks_for(m):
            if c in res:
                continue
            env = dict(os.environ, VERIF_REPO=d, VERIF_NPROC=os.environ.get("CHECK_NPROC", "4"), VERIF_SHRINK_BUDGET="20")
            try:
                p = subprocess.run([os.path.join(VERIF, "check"), c, "--tier", "quick"], cwd=VERIF, env=env, capture_output=True, text=True, timeout=600)
                v = sum(1 for ln in p.stdout.splitlines() if ln.startswith("VIOLATION"))
                res[c] = {"exit": p.returncode, "violations": v}
                if v:
                    caught = c
                    break
            except subprocess.TimeoutExpired:
                res[c] = {"exit": "timeout"}
                caught = c + "(hang)"
                break
        return m["id"], caught, res
    finally:
        restore(m, d, orig)


def rerun():
    """Survivors again, for the checks named in $CHECKS (those strengthened since the survivor was evaluated)."""
    only = os.environ["CHECKS"].split(",")
    ms = {m["id"]: m for m in load()}
    have = done("checks.jsonl")
    todo = []
    for i, r in have.items():
        if i in ms and not r["caught_by"]:
            keep = {c: v for c, v in r["results"].items() if c not in only}
            if any(c in only for c in checks_for(ms[i])):
                todo.append((ms[i], keep))
    print("to re-run:", len(todo), flush=True)
    with open(os.path.join(OUT, "checks.jsonl"), "a") as fh, cf.ProcessPoolExecutor(int(os.environ.get("W", "4"))) as ex:
        for mid, caught, res in ex.map(run_missing, todo):
            fh.write(json.dumps({"id": mid, "caught_by": caught, "results": res}) + "\n")
            fh.flush()
    _cleanup()


def recheck():
    """Survivors for which the file -> checks table has grown since they were evaluated: run the checks they lack."""
    ms = {m["id"]: m for m in load()}
    have = done("checks.jsonl")
    todo = [(ms[i], r["results"]) for i, r in have.items() if i in ms and not r["caught_by"] and any(c not in r["results"] for c in checks_for(ms[i]))]
    print("to re-evaluate:", len(todo), flush=True)
    with open(os.path.join(OUT, "checks.jsonl"), "a") as fh, cf.ProcessPoolExecutor(int(os.environ.get("W", "4"))) as ex:
        for mid, caught, res in ex.map(run_missing, todo):
            fh.write(json.dumps({"id": mid, "caught_by": caught, "results": res}) + "\n")      # a later row for the same id replaces the earlier one
            fh.flush()
    _cleanup()


def _cleanup():
    for d in os.listdir("/dev/shm"):
        if d.startswith("msw-%s-" % os.environ.get("MSW_TAG", "x")):
            shutil.rmtree(os.path.join("/dev/shm", d), ignore_errors=True)


def report():
    ms = {m["id"]: m for m in load()}
    t = done("tests.jsonl")
    c = done("checks.jsonl")
    print("| file | mutants | invalid | killed by the pinned tests | not noticed by the tests | of those evaluated | reported by a quick check | hang (watchdog) | not reported |")
    print("|---|---|---|---|---|---|---|---|---|")
    tot = [0] * 8
    for f in FILES:
        ids = [i for i, m in ms.items() if m["file"] == f]
        inv = sum(1 for i in ids if t.get(i, {}).get("tests") == "invalid")
        killed = sum(1 for i in ids if t.get(i, {}).get("tests", "").startswith("killed"))
        surv = [i for i in ids if t.get(i, {}).get("tests") == "survived"]
        ev = [i for i in surv if i in c]
        hang = sum(1 for i in ev if c[i]["caught_by"] and "hang" in c[i]["caught_by"])
        caught = sum(1 for i in ev if c[i]["caught_by"] and "hang" not in c[i]["caught_by"])
        row = [len(ids), inv, killed, len(surv), len(ev), caught, hang, len(ev) - caught - hang]
        tot = [a + b for a, b in zip(tot, row)]
        print("| `%s` | %s |" % (f, " | ".join(str(x) for x in row)))
    print("| **total** | %s |" % " | ".join(str(x) for x in tot))
    print()
    by = {}
    for i, r in c.items():
        k = r["caught_by"] or "none"
        by[k] = by.get(k, 0) + 1
    print("first reporting check:", dict(sorted(by.items())))
    print()
    print("not reported (survivors):")
    for i, r in sorted(c.items()):
        if not r["caught_by"] and i in ms:
            m = ms[i]
            print(f"- `{m['file']}:{m['line']}` {m['op']}: `{m['old'][:50]}` -> `{m['new'][:50]}`  (checks run: {' '.join(r['results'])})")


if __name__ == "__main__":
    os.environ.setdefault("MSW_TAG", str(os.getpid()))
    {"gen": gen, "tests": tests, "checks": checks, "recheck": recheck, "rerun": rerun, "report": report}[sys.argv[1]]()
