#!/usr/bin/env python3
"""Regenerates /verif/MANIFEST.json from the table below (kept in one place so it stays valid)."""
import json
import os

HERE = os.path.dirname(os.path.dirname(os.path.abspath(__file__)))
BASELINE = "cd /repo && /venv/bin/python -m pytest -ra -q -p no:cacheprovider --timeout=900 --continue-on-collection-errors"

CHECKS = {
    "C05": dict(
        cat="model_checking", ref="DESIGN.md §3 C05",
        technique="explicit-state BFS over the product of the live c_file_source generator state and a reference scanner (one transition = one physical line), plus bounded-exhaustive enumeration of all short texts",
        text="Product-machine search: every reachable (implementation cleaner state x reference scanner state) pair under all physical lines of <=3 (quick) / <=4 (thorough) symbols is visited on the real generator and the per-line attribution compared on every transition; all texts up to 6/8 symbols are additionally enumerated through c_file_source and up to 5/6 through FileParser.parse_file.",
        note="Alphabet {letter digit blank tab / * \" ' \\ # newline}; reference = translation phases 2-3 (cbimc/ref/cscan.py); texts gcc diagnoses are pruned; three recorded findings attributed by micro-repair / witness (known_findings.json).",
    ),
}

CHECKS["C02"] = dict(
    cat="exploration", ref="DESIGN.md §3 C02",
    technique="bounded-exhaustive enumeration of expression ASTs (all <=1-operator ASTs over a 48-leaf boundary set, all 2-operator shapes x ordered operator pairs) evaluated by the real Lexer/MacroExpander/ExpressionEvaluator against a direct AST evaluator; every case cross-checked with gcc -E in batch",
    text="Every enumerated AST is evaluated by the reference directly on the tree (no reference parser), printed with only the parentheses C requires, and run through the real code; truth value and pinned value `(E) == V` must match ISO C. The n<=1 universe also goes through FileParser+finder.find, and ill-formed #elif expressions after a taken branch must not be evaluated.",
    note="Reference evaluator cexpr.py (0 disagreements with gcc on every enumerated case); undefined / implementation-defined cases excluded; one recorded finding (unsuffixed hex >= 2^63, pinned by the repo's own test).",
)

CHECKS["C01"] = dict(
    cat="model_checking", ref="DESIGN.md §3 C01",
    technique="explicit-state BFS over (reference conditional stack + macro table) x (implementation tree insertion chain + platform macro table), one transition = one more source line re-parsed and re-associated by the real code; plus bounded-exhaustive enumeration of all well-formed programs up to a directive bound x 10 -D configurations, every pair judged by gcc -E in batch",
    text="Every well-formed conditional program with <=5 (quick) / <=6 (thorough) directives over the condition/define alphabet is analysed by the real finder.find for 10 configurations and compared per physical line with the reference machine; the BFS reaches deeper nesting/history combinations with state deduplication and a congruence check.",
    note="Reference machine ref/cond.py agrees with gcc -E on every judged (program, configuration); pairs gcc diagnoses are excluded; only .lines membership is compared.",
)

CHECKS["C03"] = dict(
    cat="exploration", ref="DESIGN.md §3 C03",
    technique="bounded-exhaustive enumeration of (macro table, invocation) pairs (all bodies up to k phrases, all balanced invocations up to n tokens, ISO C examples) expanded by the real MacroExpander through both definition paths, against a hide-set reference expander and gcc -E in batch; per-expansion watchdog",
    text="Every enumerated pair that gcc accepts without diagnostic (and on which gcc and the reference expander agree) must expand to the same token sequence in the real code, via #define and via -D, and `#if <invocation>` must have gcc's truth value; a timeout is a violation.",
    note="Oracle = ref/expand.py AND gcc -E (disagreements between the two are excluded and counted); one recorded finding (#__VA_ARGS__ comma spacing).",
)

CHECKS["C07"] = dict(
    cat="exploration", ref="DESIGN.md §3 C07",
    technique="exhaustive enumeration of platform-set tables (every table over the 8 subsets of 3 platforms with entries absent or from a count set, 4-platform 0/1 tables, huge counts, scalings) x every `platforms` argument and platform pair, against exact rational arithmetic",
    text="Every table of the stated finite universe is evaluated by the real coverage / average_coverage / distance / divergence functions and by report.summary / report.clustering (printed lines), and compared with fractions.Fraction evaluation of the definitions, including NaN exactly when undefined and no exception.",
    note="Floats compared to 1e-9 relative; printed %.2f values accepted if they are a correct rounding of the exact value; distance on the diagonal with no lines may be 0 or NaN.",
)
CHECKS["C09"] = dict(
    cat="exploration", ref="DESIGN.md §3 C09",
    technique="bounded-exhaustive enumeration of gitignore pattern lists (all lists of length <=2 over a 41-pattern pool, triples over sub-pools) x 44+ path spellings on a feature-complete tree (and a code base made of two of its directories), against `git check-ignore --no-index` run in batch",
    text="For every enumerated pattern list, `path in CodeBase` for every spelling (absolute, relative, '..', through file and directory links, dangling, outside) and list(CodeBase) must equal: existing regular file, recognised extension, under the root, not ignored by git on the resolved root-relative path.",
    note="git 2.39 is the pattern oracle; one recorded third-party finding (pathspec re-inclusion below an excluded directory) attributed by predicate.",
)
CHECKS["C16"] = dict(
    cat="exploration", ref="DESIGN.md §3 C16",
    technique="exhaustive enumeration of all assignments of 5 pooled contents to 5 (quick) / 6 (thorough) files in two directories x 6 structural variants (excluded twin, symlinked twin, link listed before its target, non-source twin, overlapping directories), all files with one mtime, against a direct byte-wise partition",
    text="For every assignment report.find_duplicates (as a set of sets) and the printed duplicates report must equal the classes of size >= 2 of the byte-wise partition of the member non-link files; a watchdog turns non-termination into a violation.",
    note="sha512 pre-filter not subverted; order of groups / of paths in a group is C14's business.",
)

CHECKS["C11"] = dict(
    cat="exploration", ref="DESIGN.md §3 C11",
    technique="exhaustive enumeration of argument vectors (all sequences of <=3 argument groups over 57 groups: the four recognised options in both spellings with hazardous values, and a catalogue of unmodelled real compiler flags; 4-group vectors over a sub-alphabet) and of call sequences (fresh parser per call, one ArgumentParser object, one compilation database) against a reference option extractor",
    text="Every enumerated vector is parsed by the real config.ArgumentParser for several compiler names; defines, -I directories, -isystem directories and forced includes must be exactly those given, in command-line order, with no exception, and the shell-quoted command form must split back to the same argv.",
    note="Reference extractor implements gcc's Joined|Separate rule; relative order between -I and -isystem is C04's; one recorded finding (attached -isystemDIR / -includeFILE).",
)
CHECKS["C13"] = dict(
    cat="exploration", ref="DESIGN.md §3 C13",
    technique="exhaustive enumeration of database entries (7 directory x 4 file x 6 -I spellings) and of all entry sequences of length <=2/3 over representative + skipped kinds, loaded by the real config.load_database and analysed by finder.find, against an independent path model confirmed by gcc -E run from the entry's directory",
    text="For every enumerated database the loaded entries must name the file and include directories a compiler running in `directory` would use, skipped entries must each produce one warning and change nothing else, and the header reached through -I must be the one attributed.",
    note="Path model confirmed by gcc for every distinct command; schema-invalid databases are outside the universe.",
)

CHECKS["C12"] = dict(
    cat="model_checking", ref="DESIGN.md §3 C12",
    technique="explicit-state BFS over parse_args call histories on one loaded configuration (state = deep snapshot of the process-wide compiler table, invariant = same answer as on a fresh configuration), plus exhaustive enumeration of alias graphs, rule subsets x command lines against reference semantics, and pinned built-in flag combinations",
    text="All 216 alias graphs, all subsets of a 6-rule pool (+ a second pass-selecting rule) x override x implicit-option sets x all command lines of <=2/3 argument groups, every documented flag combination of the four built-in definition files (pinned expectations), the options-appended identity, and every call history of depth <=3/4 are executed on the real config module.",
    note="Built-in expectations are pinned in cbimc/props/c12.py; per-pass defines / paths compared as multisets.",
)

CHECKS["C06"] = dict(
    cat="exploration", ref="DESIGN.md §3 C06",
    technique="bounded-exhaustive enumeration of code bases (144 combinations of file bodies, header bodies, link decorations, unused files) x platform sets of size 0..4, each run through finder.find in-process and through the codebasin, cbi-tree (plain/--prune/-L) and cbi-cov front ends in-process with fd-level capture; oracle = cross-report identities",
    text="For every enumerated case the summary rows must be the per-platform-set sums of the ground per-line attribution, their total the SLOC, percentages and metric lines the exact values; coverage.json must list sha512 ids and a used/unused partition of the counted lines; every cbi-tree directory row must be the sum of the non-link files beneath it, --prune must drop exactly the unused files and -L must only hide rows.",
    note="Ground attribution comes from the real finder.find; outputs are parsed back from stdout / coverage.json; a slice also runs as real subprocesses.",
)

CHECKS["C08"] = dict(
    cat="model_checking", ref="DESIGN.md §3 C08",
    technique="explicit-state exploration of compile-command histories: every command sequence of length <=3 for one platform and pairs (thorough: triples) of sequences for several platforms over a 10-command alphabet on a leak-prone code base, each executed by the real finder.find; invariant = the association equals the union of fresh single-command analyses; -p projections through the CLIs",
    text="Every bounded history of compile commands is run on the real code from a fresh state and must reach exactly the union, per platform, of the single-command results (no macro, include-once mark, include memo or token mutation leaks between commands or platforms); all orders of a multiset coincide; codebasin -p / cbi-tree -p give the projection of the full result.",
    note="Differential oracle (implementation alone from a fresh state); the code base contains every leak channel found by reading the code.",
)
CHECKS["C10"] = dict(
    cat="exploration", ref="DESIGN.md §3 C10",
    technique="exhaustive enumeration of all subsets of the files of four code-base variants (macro header inside / outside the root, included in quote / angle form) x up to 4 git-confirmed pattern renderings, each analysed with and without the exclusion by the real finder.find; -x vs analysis-file equivalence through the three front ends",
    text="For every subset of files and every rendering of an exclude list matching exactly it, the attribution of all remaining files must be unchanged and the matched files' lines must vanish from every platform set; headers outside the root contribute nothing but their macros keep their effect; -x on the command line equals exclude= in the analysis file; a header outside the root behaves like the same header inside and excluded; one parser state asked about several code bases answers each correctly.",
    note="Pattern renderings are confirmed with git check-ignore; differential oracle.",
)
CHECKS["C15"] = dict(
    cat="exploration", ref="DESIGN.md §3 C15",
    technique="bounded-exhaustive enumeration of alias decorations (six alias sites: compiled-file spellings on two platforms, -I spelling, second include of a #pragma once header, nested include spelling, extra links) of a canonical code base, differential against the canonical-path code base",
    text="Every combination of <=3 (quick) / all (thorough) aliased sites is analysed by the real code and must give the setmap, per-line attribution and tree set of the canonical-path code base; links add nothing, a link to a file outside is not a member.",
    note="Differential oracle: the implementation on canonical paths.",
)

CHECKS["C14"] = dict(
    cat="model_checking", ref="DESIGN.md §3 C14",
    technique="deviation-bounded exhaustive search over iteration orders: the explorer owns every unordered-iteration choice point (directory listings via Path._scandir, the `set` constructor of codebasin.finder/report/config, platform-table order), default = sorted order, all executions with <=1 (quick) / <=2 (thorough) deviating choice points run to completion on the real front ends; a schedule is replayed twice before a failure is believed",
    text="For each input every schedule within the deviation bound is executed through codebasin (summary + duplicates), cbi-tree, cbi-cov and the in-process analysis; platform-set table, metrics, distance matrix, per-line attribution, coverage export, duplicate groups and tree must be identical in content and in serialisation order to the default schedule.",
    note="Choice points keyed by (site, elements); sets built by displays/comprehensions would escape the hook (the PYTHONHASHSEED subprocess supplement would notice); order of duplicate groups and of the paths inside a group is compared; floats compared to 1e-12.",
)

CHECKS["C04"] = dict(
    cat="model_checking", ref="DESIGN.md §3 C04",
    technique="explicit-state BFS over Platform.find_include_file call histories (state = the include memo and once-list, invariant = stateless reference resolver) plus bounded-exhaustive enumeration of multi-directory trees (15 header placements x 5 header styles x include sequences x 15 ordered -I/-isystem lists (two with a repeated directory) x -include, + a self-including header bounded by macros; for two-directory lists a companion platform analyses the same TU first with the list reversed) analysed through config.load_database + finder.find against a reference preprocessor, cross-checked with gcc -E on the materialised trees",
    text="Every enumerated tree / command line is analysed by the real code and the per-line attribution of every header copy and of the translation unit must equal the reference preprocessor's (includer's directory first for quote includes, all -I before all -isystem, first match wins, guard / #pragma once bodies once per TU, forced include first, macros visible afterwards); every resolver call history must answer like the stateless resolver.",
    note="Reference ref/cpp.py validated against gcc -E -P (emitted code lines); missing headers excluded (C18); same directory as -I and -isystem, -iquote, #include_next outside the alphabet.",
)

CHECKS["C18"] = dict(
    cat="model_checking", ref="DESIGN.md §3 C18",
    technique="exhaustive enumeration of all subsets of <=3/4 of 16 fault sites on a two-platform multi-TU code base (analysed in-process and through the codebasin CLI), plus explicit-state exploration of include-directive sequences on one Platform (state = its include memo); oracle = event log of the reference preprocessor",
    text="For every fault combination the set of (category, file, line, name, quote/angle) warning records captured from the codebasin logger must equal the model's events, each at least once and at most once per reach event, fully honoured input must produce none, and the three totals printed by codebasin must equal the WARNING records in cbi.log; no include sequence may let the memo suppress a later warning.",
    note="Multiplicity of source-level events is bounded (1..reach events), of database-level events (missing file, unknown compiler, unknown flag) exact; wording beyond the named fields is not compared.",
)

CHECKS["C17"] = dict(
    cat="model_checking", ref="DESIGN.md §3 C17",
    technique="explicit-state BFS over the product of the live fortran_file_source / c_file_source generator states (read from their frames) and a reference free-form scanner, one transition = one physical line; plus exhaustive enumeration of all short texts through fortran_file_source and FileParser, and the C01 conditional universe re-run on .F90 files",
    text="Every reachable product state under all physical lines of <=4 symbols is visited on the real generators and the counted / directive line sets compared at every transition and at end of file; all texts up to 6/7 symbols are enumerated; every conditional program with <=4/5 directives x 10 configurations is analysed in a .F90 file and must select lines exactly as the reference machine (validated against gcc in C01).",
    note="Alphabet {a blank ! & ' \" $ / # newline}; backslash splicing in Fortran text, '##' lines and continuation text starting with '#' are excluded; language inheritance of included headers is reported as information only.",
)

PENDING = {}


def main():
    props = [json.loads(l) for l in open(os.path.join(HERE, "properties.jsonl"))]
    checks = []
    na = []
    for p in props:
        pid = p["id"]
        c = CHECKS.get(pid)
        if not c:
            na.append({"property_id": pid, "reason": PENDING.get(pid, "check not yet built at this commit (work in progress; see DESIGN.md §3)")})
            continue
        checks.append({
            "property_id": pid,
            "quick_cmd": f"./check {pid} --tier quick",
            "thorough_cmd": f"./check {pid} --tier thorough",
            "evidence_file": f"/verif/evidence/{pid}.json",
            "replay_cmd_template": "./check replay {path}",
            "engine": "cbimc",
            "level_claimed": {"category": c["cat"], "text": c["text"], "design_ref": c["ref"]},
            "level_note": c["note"],
            "technique": c["technique"],
        })
    man = {
        "version": 1,
        "setup_cmd": "./check setup",
        "hooks": {
            "guard": "CBI_VERIF",
            "enable": "no instrumentation in /repo: checks import codebasin from $VERIF_REPO (default /repo) and observe through public functions, harness-owned iterators and run-time assignment to module globals",
            "baseline_off_cmd": BASELINE,
            "source_commits": [],
            "add_only": True,
        },
        "engines": [{
            "name": "cbimc", "path": "/verif/cbimc",
            "serves_properties": sorted(CHECKS),
            "kind_free_text": "hand-written explicit-state / bounded-exhaustive explorer for Python driving the real codebasin code (BFS with replay, canonical state keys with congruence check, exhaustive input enumeration against reference models, shrinking, replay files)",
        }],
        "checks": checks,
        "not_applicable": na,
        "notes": "Known findings and fixed defects: /verif/known_findings.json. Seeded property-breaking changes: /verif/seeded/. Design: /verif/DESIGN.md.",
    }
    with open(os.path.join(HERE, "MANIFEST.json"), "w") as f:
        json.dump(man, f, indent=1)
    print(f"MANIFEST.json: {len(checks)} checks, {len(na)} not claimed")


if __name__ == "__main__":
    main()
