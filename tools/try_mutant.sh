#!/bin/sh
# usage: tools/try_mutant.sh <patch.diff> <check ids...>   (env TESTS=1 also runs the repo's pytest suite on the mutated copy)
# Applies the patch to a scratch copy of /repo (never to /repo), runs the checks against it with VERIF_REPO, removes the copy.
set -e
PATCH=$(realpath "$1"); shift
D=$(mktemp -d /dev/shm/mut-XXXXXX)
trap 'rm -rf "$D"' EXIT
rsync -a --exclude .git /repo/ "$D/"
( cd "$D" && patch -p1 -s < "$PATCH" )
if [ -n "$TESTS" ]; then ( cd "$D" && /venv/bin/python -m pytest -q -p no:cacheprovider -x 2>&1 | tail -2 ); fi
cd /verif
for c in "$@"; do
  VERIF_REPO="$D" ./check "$c" --tier "${TIER:-quick}" 2>&1 | grep -E "^VIOLATION|^KNOWN|^\[" | cut -c1-220 | head -6
done
